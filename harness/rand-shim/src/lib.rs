//! Deterministic stand-in for the `rand` crate, used only inside the verification harness build.
//! uflow calls `rand::random::<u32>()` (handshake nonces) and `rand::random::<bool>()` (per-frame
//! nonce bit). Values come from a seeded SplitMix64 unless the harness queued forced values.

use std::cell::RefCell;
use std::collections::VecDeque;

struct State {
    s: u64,
    forced_u32: VecDeque<u32>,
    forced_bool: VecDeque<bool>,
    drawn: u64,
}

thread_local! {
    static STATE: RefCell<State> = RefCell::new(State { s: 0x9E3779B97F4A7C15, forced_u32: VecDeque::new(), forced_bool: VecDeque::new(), drawn: 0 });
}

fn next_u64(st: &mut State) -> u64 {
    st.s = st.s.wrapping_add(0x9E3779B97F4A7C15);
    let mut z = st.s;
    z = (z ^ (z >> 30)).wrapping_mul(0xBF58476D1CE4E5B9);
    z = (z ^ (z >> 27)).wrapping_mul(0x94D049BB133111EB);
    z ^ (z >> 31)
}

pub fn verif_seed(seed: u64) {
    STATE.with(|s| {
        let mut s = s.borrow_mut();
        s.s = seed;
        s.forced_u32.clear();
        s.forced_bool.clear();
    });
}

pub fn verif_force_u32(v: u32) {
    STATE.with(|s| s.borrow_mut().forced_u32.push_back(v));
}

pub fn verif_force_bool(v: bool) {
    STATE.with(|s| s.borrow_mut().forced_bool.push_back(v));
}

pub fn verif_drawn() -> u64 {
    STATE.with(|s| s.borrow().drawn)
}

pub trait VerifRandom {
    fn verif_random() -> Self;
}

impl VerifRandom for u32 {
    fn verif_random() -> Self {
        STATE.with(|s| {
            let mut s = s.borrow_mut();
            s.drawn += 1;
            if let Some(v) = s.forced_u32.pop_front() { v } else { next_u64(&mut s) as u32 }
        })
    }
}

impl VerifRandom for bool {
    fn verif_random() -> Self {
        STATE.with(|s| {
            let mut s = s.borrow_mut();
            s.drawn += 1;
            if let Some(v) = s.forced_bool.pop_front() { v } else { next_u64(&mut s) & 1 == 1 }
        })
    }
}

macro_rules! int_impl {
    ($($t:ty),*) => { $(impl VerifRandom for $t {
        fn verif_random() -> Self {
            STATE.with(|s| { let mut s = s.borrow_mut(); s.drawn += 1; next_u64(&mut s) as $t })
        }
    })* };
}
int_impl!(u8, u16, u64, usize, i32, i64);

pub fn random<T: VerifRandom>() -> T {
    T::verif_random()
}

pub fn verif_clear_forced() {
    STATE.with(|s| {
        let mut s = s.borrow_mut();
        s.forced_u32.clear();
        s.forced_bool.clear();
    });
}
