//! Long histories (C01: "across wrap-around of the 20-bit packet ... sequence numbers", "delay"): a short phase of
//! ordinary lossy traffic whose frames are all copied; then more than a million further packets, so that the 20-bit
//! packet ids come round to where they were; then every copied frame arrives once more - a duplicate delayed for the
//! whole cycle.  Nothing of it may be delivered again.
//!
//! The first and the last phase are logged like any other run and judged by MonDelivery.  The filler packets of the
//! middle phase are not logged (their uids live in a range of their own, so that the logged uids stay consecutive);
//! the harness checks them itself and reports an anomaly as a delivery of an unidentified payload.

use crate::common::*;
use crate::hc::*;
use serde_json::json;
use uflow::verif as uv;
use uflow::verif::Serialize;
use uflow::SendMode;

struct Frames(Vec<Box<[u8]>>);
impl uv::FrameSink for Frames {
    fn send(&mut self, frame_data: &[u8]) {
        self.0.push(frame_data.into());
    }
}
struct Pkts(Vec<Box<[u8]>>);
impl uv::PacketSink for Pkts {
    fn send(&mut self, packet_data: Box<[u8]>) {
        self.0.push(packet_data);
    }
}

fn hand(hc: &mut uv::HalfConnection, bytes: &[u8]) {
    match uv::Frame::read(bytes) {
        Some(uv::Frame::DataFrame(f)) => hc.handle_data_frame(f),
        Some(uv::Frame::SyncFrame(f)) => hc.handle_sync_frame(f),
        Some(uv::Frame::AckFrame(f)) => hc.handle_ack_frame(f),
        _ => (),
    }
}

pub fn run_cycle(tr: &mut Trace, run: u64, seed: u64) {
    let mut r = Rng::new(seed);
    let pw = *r.pick(&[16u32, 256, 4096]);
    let fw = *r.pick(&[16u32, 256, 4096]);
    let pbase = if r.chance(1, 2) { (PID_MASK + 1 - r.below(3 * pw as u64) as u32) & PID_MASK } else { r.next() as u32 & PID_MASK };
    let fbase = if r.chance(1, 2) { u32::MAX - r.below(3 * fw as u64) as u32 } else { r.next() as u32 };
    let cfg = PairCfg { pw, fw, pbase: [pbase, r.next() as u32 & PID_MASK], fbase: [fbase, r.next() as u32],
        rx_alloc: [1_000_000, 1_000_000], bw: [2_000_000, 2_000_000], keepalive: None };
    crate::hc_random::uflow_rand_seed(seed);
    let mut p = Pair::new(cfg.clone());
    p.log_probe = false;
    tr.line(json!({"ev": "Reset", "run": run, "seed": seed as i64 & 0x3FFFFFFF, "driver": "hc-cycle", "profile": "cycle", "ideal": false, "honest": true,
        "cfg": p.cfg_json(), "ceil_a": 2000000, "ceil_b": 2000000}));
    let mut lnow: u64 = 1;
    let big = 1_000_000isize;

    // ---- phase A: ordinary lossy traffic a -> b in logical mode; every frame a emits is copied
    let mut saved: Vec<Box<[u8]>> = Vec::new();
    let rounds = r.range(15, 50);
    for _ in 0..rounds {
        if p.dead {
            break;
        }
        lnow += *r.pick(&[1u64, 1, 20, 150, 2500, 5000]);   // the long gaps let the sync timer (max(RTO, 2 s)) expire
        if r.chance(3, 4) {
            for _ in 0..r.range(1, 3) {
                let mode = *r.pick(&[SendMode::Unreliable, SendMode::Persistent, SendMode::Reliable, SendMode::TimeSensitive]);
                p.send(tr, 0, r.below(3) as u8, mode, r.range(4, 200) as usize);
            }
        }
        let frames = p.flush(tr, 0, Some((big, lnow, 100, 1000)));
        for (idx, bytes) in frames.into_iter() {
            saved.push(bytes.clone());
            if r.chance(1, 5) {
                tr.line(json!({"ev": "Net", "dir": 0, "idx": idx, "fate": "drop"}));
            } else {
                p.handle_bytes(tr, 1, &bytes, json!({"idx": idx}));
            }
        }
        p.receive(tr, 1);
        if r.chance(2, 3) {
            let acks = p.flush(tr, 1, Some((big, lnow, 100, 1000)));
            for (idx, bytes) in acks.into_iter() {
                if r.chance(1, 3) {
                    tr.line(json!({"ev": "Net", "dir": 1, "idx": idx, "fate": "drop"}));
                } else {
                    p.handle_bytes(tr, 0, &bytes, json!({"idx": idx}));
                }
            }
        }
    }
    // settle: no loss until the sender has nothing pending
    for _ in 0..60 {
        if p.dead {
            break;
        }
        lnow += 3000;
        let frames = p.flush(tr, 0, Some((big, lnow, 100, 1000)));
        for (idx, bytes) in frames.into_iter() {
            saved.push(bytes.clone());
            p.handle_bytes(tr, 1, &bytes, json!({"idx": idx}));
        }
        p.receive(tr, 1);
        let acks = p.flush(tr, 1, Some((big, lnow, 100, 1000)));
        for (idx, bytes) in acks.into_iter() {
            p.handle_bytes(tr, 0, &bytes, json!({"idx": idx}));
        }
        p.log_probe = false;
        p.probe(tr, 0);
        if !p.ep[0].last_pending && p.ep[0].last_bufsize == 0 {
            break;
        }
    }
    if p.dead {
        tr.line(json!({"ev": "End", "run": run, "dead": true, "calls": p.calls}));
        return;
    }

    // ---- phase B (not logged): filler packets until the packet ids have come round to where phase A used them
    let sa = p.ep[0].hc.as_ref().unwrap().verif_snapshot();
    let used = sa.tx_next.wrapping_sub(cfg.pbase[0]) & PID_MASK;          // ids consumed so far
    let land = r.below(used.max(1) as u64) as u32;                        // where in phase A's id range the window base ends up
    let n = ((PID_MASK + 1) - used + land) as u64;
    let mut next_filler: u32 = 1_000_000_000;
    let mut expect: u32 = next_filler;
    let mut anomalies = 0u64;
    let mut calls = 0u64;
    {
        let (ea, eb) = p.ep.split_at_mut(1);
        let a = ea[0].hc.as_mut().unwrap();
        let b = eb[0].hc.as_mut().unwrap();
        let mut sent = 0u64;
        while sent < n || a.is_send_pending() {
            lnow += 1;
            let burst = (n - sent).min(8);
            for _ in 0..burst {
                a.send(next_filler.to_le_bytes().to_vec().into_boxed_slice(), 0, SendMode::Unreliable);
                next_filler += 1;
                sent += 1;
            }
            let mut fs = Frames(Vec::new());
            a.verif_set_flush_alloc(big);
            a.verif_emit_frames(lnow, 100, 1000, &mut fs);
            for f in fs.0.iter() {
                hand(b, f);
            }
            let mut ps = Pkts(Vec::new());
            b.receive(&mut ps);
            for pk in ps.0.iter() {
                if pk.len() == 4 && u32::from_le_bytes([pk[0], pk[1], pk[2], pk[3]]) == expect {
                    expect += 1;
                } else {
                    anomalies += 1;
                }
            }
            let mut acks = Frames(Vec::new());
            b.verif_set_flush_alloc(big);
            b.verif_emit_frames(lnow, 100, 1000, &mut acks);
            for f in acks.0.iter() {
                hand(a, f);
            }
            calls += 6 + burst;
            if burst == 0 {
                lnow += 3000;   // only waiting for the last acknowledgements
                if calls > 20_000_000 {
                    break;
                }
            }
        }
    }
    p.calls += calls;
    if anomalies > 0 || expect != next_filler {
        // an unlogged filler packet was lost, repeated, reordered or altered on a loss-free link: reported as the delivery of
        // an unidentified payload (the monitor has no submission to match it with)
        tr.line(json!({"ev": "Deliver", "ep": "b", "uid": -1, "match": false, "len": 4, "t": p.t_ms(), "fillers": {"sent": next_filler - 1_000_000_000, "in_order": expect - 1_000_000_000, "anomalies": anomalies}}));
    }

    // ---- phase C: every frame of phase A arrives once more, in its original order, the application reading after each
    tr.line(json!({"ev": "Cycle", "fillers": n.min(2_000_000_000), "saved": saved.len(), "land": land}));
    for bytes in saved.iter() {
        if p.dead {
            break;
        }
        p.handle_bytes(tr, 1, bytes, json!({"late": true}));
        p.receive(tr, 1);
    }
    tr.line(json!({"ev": "End", "run": run, "dead": p.dead, "calls": p.calls}));
}
