//! uvh — verification harness for lowquark/uflow. Sub-commands drive the real code and write ndjson
//! traces that TLC validates against the TLA+ monitor / model specifications in /verif/spec.

mod common;
mod hc;
mod hc_random;
mod hc_hostile;
mod hc_script;
mod hc_model;
mod feedback_model;
mod emit_model;
mod ack_emit_model;
mod tfrc;
mod codec;
mod hc_twin;
mod hc_cycle;
mod alloc;
mod alloc_run;

#[global_allocator]
static GLOBAL: alloc::Recorder = alloc::Recorder;
mod sess;
mod sess_random;

use common::*;
use std::collections::HashMap;

fn args_map() -> (String, HashMap<String, String>) {
    let mut it = std::env::args().skip(1);
    let cmd = it.next().unwrap_or_default();
    let mut m = HashMap::new();
    let rest: Vec<String> = it.collect();
    let mut i = 0;
    while i < rest.len() {
        if let Some(k) = rest[i].strip_prefix("--") {
            if i + 1 < rest.len() && !rest[i + 1].starts_with("--") {
                m.insert(k.to_string(), rest[i + 1].clone());
                i += 2;
            } else {
                m.insert(k.to_string(), "1".to_string());
                i += 1;
            }
        } else {
            i += 1;
        }
    }
    (cmd, m)
}

fn geti(m: &HashMap<String, String>, k: &str, d: u64) -> u64 {
    m.get(k).and_then(|v| v.parse().ok()).unwrap_or(d)
}

fn main() {
    let (cmd, m) = args_map();
    selftest_clock();
    install_panic_hook();
    let out = m.get("out").cloned().unwrap_or_else(|| "/dev/null".to_string());
    let progress_path = m.get("progress").cloned();
    match cmd.as_str() {
        "hc-random" => {
            let seed = geti(&m, "seed", 1);
            let runs = geti(&m, "runs", 10);
            let start = geti(&m, "start", 0);
            let prof = hc_random::profile_from(m.get("profile").map(|s| s.as_str()).unwrap_or("mixed"));
            let mut tr = Trace::create(&out);
            let mut tot = (0u64, 0u64, 0u64, 0u64, 0u64);
            for i in start..start + runs {
                progress(&progress_path, &format!("{}", i));
                let s = hc_random::run_random(&mut tr, i, mix(seed, i), prof);
                tr.flush();
                tot.0 += s.sent;
                tot.1 += s.delivered;
                tot.2 += s.frames;
                tot.3 += s.quiesced as u64;
                tot.4 += s.dead as u64;
            }
            progress(&progress_path, "done");
            eprintln!("hc-random: runs={} sent={} delivered={} frames={} quiesced={} dead={} lines={}", runs, tot.0, tot.1, tot.2, tot.3, tot.4, tr.lines);
        }
        "hc-reasm" => {
            let seed = geti(&m, "seed", 1);
            let runs = geti(&m, "runs", 10);
            let start = geti(&m, "start", 0);
            let mut tr = Trace::create(&out);
            let mut inj = 0;
            for i in start..start + runs {
                progress(&progress_path, &format!("{}", i));
                let s = hc_hostile::run_reasm(&mut tr, i, mix(seed ^ 0x4EA5, i));
                inj += s.injected;
            }
            progress(&progress_path, "done");
            eprintln!("hc-reasm: runs={} injected={} lines={}", runs, inj, tr.lines);
        }
        "hc-hostile" => {
            let seed = geti(&m, "seed", 1);
            let runs = geti(&m, "runs", 10);
            let start = geti(&m, "start", 0);
            let mut tr = Trace::create(&out);
            let mut inj = 0;
            let mut dead = 0;
            for i in start..start + runs {
                progress(&progress_path, &format!("{}", i));
                let s = hc_hostile::run_hostile(&mut tr, i, mix(seed ^ 0x77, i), m.contains_key("steps"));
                tr.flush();
                inj += s.injected;
                dead += s.dead as u64;
            }
            progress(&progress_path, "done");
            eprintln!("hc-hostile: runs={} injected={} dead={} lines={}", runs, inj, dead, tr.lines);
        }
        "hc-script" => {
            // --in file.ndjson: one scripted run per line; run index = line number
            let input = m.get("in").cloned().unwrap_or_default();
            let text = std::fs::read_to_string(&input).unwrap_or_else(|e| { eprintln!("TOOL-ERROR: {}: {}", input, e); std::process::exit(2); });
            let start = geti(&m, "start", 0);
            let runs = geti(&m, "runs", u64::MAX / 2);
            let mut tr = Trace::create(&out);
            let mut n = 0;
            let mut dead = 0;
            for (i, line) in text.lines().enumerate() {
                let i = i as u64;
                if i < start || i >= start.saturating_add(runs) || line.trim().is_empty() {
                    continue;
                }
                progress(&progress_path, &format!("{}", i));
                let spec: serde_json::Value = serde_json::from_str(line).unwrap_or_else(|e| { eprintln!("TOOL-ERROR: bad script line {}: {}", i, e); std::process::exit(2); });
                let (_, d) = hc_script::run_script(&mut tr, i, &spec);
                n += 1;
                dead += d as u64;
            }
            progress(&progress_path, "done");
            eprintln!("hc-script: runs={} dead={} lines={}", n, dead, tr.lines);
        }
        "tfrc" => {
            WD_SECS.store(3, std::sync::atomic::Ordering::SeqCst); // calls take microseconds
            let seed = geti(&m, "seed", 1);
            let runs = geti(&m, "runs", 10);
            let start = geti(&m, "start", 0);
            let mut tr = Trace::create(&out);
            let mut calls = 0;
            let mut dead = 0;
            for i in start..start + runs {
                progress(&progress_path, &format!("{}", i));
                let (c, d) = tfrc::run_tfrc(&mut tr, i, mix(seed ^ 0x7F2C, i), m.contains_key("bounded"));
                calls += c;
                dead += d as u64;
            }
            progress(&progress_path, "done");
            eprintln!("tfrc: runs={} calls={} dead={} lines={}", runs, calls, dead, tr.lines);
        }
        "codec" => {
            WD_SECS.store(3, std::sync::atomic::Ordering::SeqCst);
            let seed = geti(&m, "seed", 1);
            let runs = geti(&m, "runs", 10);
            let start = geti(&m, "start", 0);
            let mut tr = Trace::create(&out);
            if let Some(mp) = m.get("mutants") {
                progress(&progress_path, &format!("{}", start));
                codec::run_mutants(&mut tr, mp, start, runs);
                progress(&progress_path, "done");
                eprintln!("codec: mutants from line {} lines={}", start, tr.lines);
                return;
            }
            for i in start..start + runs {
                progress(&progress_path, &format!("{}", i));
                codec::run_codec(&mut tr, i, mix(seed ^ 0xC0DEC, i), m.get("vectors").map(|s| s.as_str()));
            }
            progress(&progress_path, "done");
            eprintln!("codec: runs={} lines={}", runs, tr.lines);
        }
        "crc-extract" => {
            codec::crc_extract(&out);
        }
        "alloc" => {
            let seed = geti(&m, "seed", 1);
            let runs = geti(&m, "runs", 10);
            let start = geti(&m, "start", 0);
            let mut tr = Trace::create(&out);
            for i in start..start + runs {
                progress(&progress_path, &format!("{}", i));
                alloc_run::run_alloc(&mut tr, i, mix(seed ^ 0xA110C, i));
            }
            progress(&progress_path, "done");
            eprintln!("alloc: runs={} lines={}", runs, tr.lines);
        }
        "hc-twin" => {
            let seed = geti(&m, "seed", 1);
            let runs = geti(&m, "runs", 10);
            let start = geti(&m, "start", 0);
            let mut tr = Trace::create(&out);
            let mut inj = 0;
            for i in start..start + runs {
                progress(&progress_path, &format!("{}", i));
                inj += hc_twin::run_twin(&mut tr, i, mix(seed ^ 0x7717, i), m.contains_key("noinject"));
            }
            progress(&progress_path, "done");
            eprintln!("hc-twin: runs={} injected={} lines={}", runs, inj, tr.lines);
        }
        "hc-cycle" => {
            let seed = geti(&m, "seed", 1);
            let runs = geti(&m, "runs", 2);
            let start = geti(&m, "start", 0);
            let mut tr = Trace::create(&out);
            for i in start..start + runs {
                progress(&progress_path, &format!("{}", i));
                hc_cycle::run_cycle(&mut tr, i, mix(seed ^ 0xC1C1E, i));
            }
            progress(&progress_path, "done");
            eprintln!("hc-cycle: runs={} lines={}", runs, tr.lines);
        }
        "hc-model" => {
            let input = m.get("in").cloned().unwrap_or_default();
            let text = std::fs::read_to_string(&input).unwrap_or_else(|e| { eprintln!("TOOL-ERROR: {}: {}", input, e); std::process::exit(2); });
            let start = geti(&m, "start", 0);
            let runs = geti(&m, "runs", u64::MAX / 2);
            let mut tr = Trace::create(&out);
            let (mut n, mut steps, mut mism) = (0u64, 0u64, 0u64);
            for (i, line) in text.lines().enumerate() {
                let i = i as u64;
                if i < start || i >= start.saturating_add(runs) || line.trim().is_empty() {
                    continue;
                }
                progress(&progress_path, &format!("{}", i));
                let spec: serde_json::Value = serde_json::from_str(line).unwrap_or_else(|e| { eprintln!("TOOL-ERROR: bad schedule line {}: {}", i, e); std::process::exit(2); });
                let (s, mm) = hc_model::run_model(&mut tr, i, &spec);
                n += 1;
                steps += s;
                mism += mm;
            }
            progress(&progress_path, "done");
            eprintln!("hc-model: runs={} steps={} mismatches={} lines={}", n, steps, mism, tr.lines);
        }
        "feedback-model" => {
            let input = m.get("in").cloned().unwrap_or_default();
            let text = std::fs::read_to_string(&input).unwrap_or_else(|e| { eprintln!("TOOL-ERROR: {}: {}", input, e); std::process::exit(2); });
            let start = geti(&m, "start", 0);
            let runs = geti(&m, "runs", u64::MAX / 2);
            let mut tr = Trace::create(&out);
            let (mut n, mut steps, mut mism) = (0u64, 0u64, 0u64);
            for (i, line) in text.lines().enumerate() {
                let i = i as u64;
                if i < start || i >= start.saturating_add(runs) || line.trim().is_empty() {
                    continue;
                }
                progress(&progress_path, &format!("{}", i));
                let spec: serde_json::Value = serde_json::from_str(line).unwrap_or_else(|e| { eprintln!("TOOL-ERROR: bad schedule line {}: {}", i, e); std::process::exit(2); });
                let (s, mm) = feedback_model::run_feedback_model(&mut tr, i, &spec);
                n += 1;
                steps += s;
                mism += mm;
            }
            progress(&progress_path, "done");
            eprintln!("feedback-model: runs={} steps={} mismatches={} lines={}", n, steps, mism, tr.lines);
        }
        "emit-model" => {
            let input = m.get("in").cloned().unwrap_or_default();
            let text = std::fs::read_to_string(&input).unwrap_or_else(|e| { eprintln!("TOOL-ERROR: {}: {}", input, e); std::process::exit(2); });
            let start = geti(&m, "start", 0);
            let runs = geti(&m, "runs", u64::MAX / 2);
            let mut quiet = Trace::create("/dev/null");
            let mut tr = Trace::create(&out);
            let (mut n, mut steps, mut mism) = (0u64, 0u64, 0u64);
            for (i, line) in text.lines().enumerate() {
                let i = i as u64;
                if i < start || i >= start.saturating_add(runs) || line.trim().is_empty() {
                    continue;
                }
                progress(&progress_path, &format!("{}", i));
                let spec: serde_json::Value = serde_json::from_str(line).unwrap_or_else(|e| { eprintln!("TOOL-ERROR: bad schedule line {}: {}", i, e); std::process::exit(2); });
                let (s, mm) = emit_model::run_emit_case(&mut tr, &mut quiet, i, &spec);
                n += 1;
                steps += s;
                mism += mm;
            }
            progress(&progress_path, "done");
            eprintln!("emit-model: runs={} steps={} mismatches={} lines={}", n, steps, mism, tr.lines);
        }
        "ack-emit-model" => {
            let input = m.get("in").cloned().unwrap_or_default();
            let text = std::fs::read_to_string(&input).unwrap_or_else(|e| { eprintln!("TOOL-ERROR: {}: {}", input, e); std::process::exit(2); });
            let start = geti(&m, "start", 0);
            let runs = geti(&m, "runs", u64::MAX / 2);
            let mut quiet = Trace::create("/dev/null");
            let mut tr = Trace::create(&out);
            let (mut n, mut steps, mut mism) = (0u64, 0u64, 0u64);
            for (i, line) in text.lines().enumerate() {
                let i = i as u64;
                if i < start || i >= start.saturating_add(runs) || line.trim().is_empty() {
                    continue;
                }
                progress(&progress_path, &format!("{}", i));
                let spec: serde_json::Value = serde_json::from_str(line).unwrap_or_else(|e| { eprintln!("TOOL-ERROR: bad schedule line {}: {}", i, e); std::process::exit(2); });
                let (s, mm) = ack_emit_model::run_ack_emit_case(&mut tr, &mut quiet, i, &spec);
                n += 1;
                steps += s;
                mism += mm;
            }
            progress(&progress_path, "done");
            eprintln!("ack-emit-model: runs={} steps={} mismatches={} lines={}", n, steps, mism, tr.lines);
        }
        "sess-random" => {
            let seed = geti(&m, "seed", 1);
            let runs = geti(&m, "runs", 10);
            let start = geti(&m, "start", 0);
            let prof = sess_random::sprofile_from(m.get("profile").map(|s| s.as_str()).unwrap_or("handshake"));
            let mut tr = Trace::create(&out);
            let mut wire = 0;
            let mut dead = 0;
            for i in start..start + runs {
                progress(&progress_path, &format!("{}", i));
                let s = sess_random::run_sess(&mut tr, i, mix(seed ^ 0x5E55, i), prof);
                tr.flush();
                wire += s.wire;
                dead += s.dead as u64;
            }
            progress(&progress_path, "done");
            eprintln!("sess-random: runs={} wire={} dead={} lines={}", runs, wire, dead, tr.lines);
        }
        _ => {
            eprintln!("usage: uvh <hc-random|...> [--key value]...");
            std::process::exit(2);
        }
    }
}
