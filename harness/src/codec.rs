//! Codec driver (C16): pushes frames through the real Frame::write / Frame::read and logs what came
//! out; feeds malformed inputs; extracts CRC syndromes and the CRC table from the real crc::compute.

use crate::common::*;
use serde_json::{json, Value};
use uflow::verif as uv;
use uflow::verif::Serialize;

fn p32(v: u32) -> Value {
    json!([v >> 16, v & 0xFFFF])
}
fn u32_of(v: &Value) -> u32 {
    let a = v.as_array().map(|a| (a[0].as_u64().unwrap_or(0), a[1].as_u64().unwrap_or(0))).unwrap_or((0, 0));
    ((a.0 as u32) << 16) | (a.1 as u32 & 0xFFFF)
}

pub fn frame_to_json(f: &uv::Frame) -> Value {
    match f {
        uv::Frame::HandshakeSynFrame(f) => json!({"t": "SYN", "version": f.version, "nonce": p32(f.nonce), "rate": p32(f.max_receive_rate), "psize": p32(f.max_packet_size), "alloc": p32(f.max_receive_alloc)}),
        uv::Frame::HandshakeSynAckFrame(f) => json!({"t": "SYNACK", "nonce_ack": p32(f.nonce_ack), "nonce": p32(f.nonce), "rate": p32(f.max_receive_rate), "psize": p32(f.max_packet_size), "alloc": p32(f.max_receive_alloc)}),
        uv::Frame::HandshakeAckFrame(f) => json!({"t": "ACK", "nonce_ack": p32(f.nonce_ack)}),
        uv::Frame::HandshakeErrorFrame(f) => json!({"t": "ERR", "nonce_ack": p32(f.nonce_ack), "err": match f.error { uv::HandshakeErrorType::Version => "Version", uv::HandshakeErrorType::Config => "Config", uv::HandshakeErrorType::ServerFull => "ServerFull" }}),
        uv::Frame::DisconnectFrame(_) => json!({"t": "DISC"}),
        uv::Frame::DisconnectAckFrame(_) => json!({"t": "DISCACK"}),
        uv::Frame::DataFrame(f) => json!({"t": "DATA", "seq": p32(f.sequence_id), "nonce": f.nonce, "dgs": f.datagrams.iter().map(|d| json!({
            "seq": [d.sequence_id >> 16, d.sequence_id & 0xFFFF], "ch": d.channel_id, "wpl": d.window_parent_lead, "cpl": d.channel_parent_lead,
            "frag": d.fragment_id, "last": d.fragment_id_last, "data": d.data.to_vec()})).collect::<Vec<_>>()}),
        uv::Frame::SyncFrame(f) => json!({"t": "SYNC", "has_f": f.next_frame_id.is_some(), "has_p": f.next_packet_id.is_some(),
            "nfid": p32(f.next_frame_id.unwrap_or(0)), "npid": p32(f.next_packet_id.unwrap_or(0))}),
        uv::Frame::AckFrame(f) => json!({"t": "ACKF", "fbase": p32(f.frame_window_base_id), "pbase": p32(f.packet_window_base_id),
            "groups": f.frame_acks.iter().map(|g| json!({"base": p32(g.base_id), "bits": p32(g.bitfield), "nonce": g.nonce})).collect::<Vec<_>>()}),
    }
}

pub fn frame_from_json(v: &Value) -> Option<uv::Frame> {
    let t = v.get("t")?.as_str()?;
    let g32 = |k: &str| v.get(k).map(u32_of).unwrap_or(0);
    Some(match t {
        "SYN" => uv::Frame::HandshakeSynFrame(uv::HandshakeSynFrame { version: v.get("version")?.as_u64()? as u8, nonce: g32("nonce"), max_receive_rate: g32("rate"), max_packet_size: g32("psize"), max_receive_alloc: g32("alloc") }),
        "SYNACK" => uv::Frame::HandshakeSynAckFrame(uv::HandshakeSynAckFrame { nonce_ack: g32("nonce_ack"), nonce: g32("nonce"), max_receive_rate: g32("rate"), max_packet_size: g32("psize"), max_receive_alloc: g32("alloc") }),
        "ACK" => uv::Frame::HandshakeAckFrame(uv::HandshakeAckFrame { nonce_ack: g32("nonce_ack") }),
        "ERR" => uv::Frame::HandshakeErrorFrame(uv::HandshakeErrorFrame { nonce_ack: g32("nonce_ack"), error: match v.get("err")?.as_str()? { "Version" => uv::HandshakeErrorType::Version, "Config" => uv::HandshakeErrorType::Config, _ => uv::HandshakeErrorType::ServerFull } }),
        "DISC" => uv::Frame::DisconnectFrame(uv::DisconnectFrame {}),
        "DISCACK" => uv::Frame::DisconnectAckFrame(uv::DisconnectAckFrame {}),
        "DATA" => {
            let mut dgs = Vec::new();
            for d in v.get("dgs")?.as_array()?.iter() {
                let s = d.get("seq")?.as_array()?;
                dgs.push(uv::Datagram {
                    sequence_id: ((s[0].as_u64()? as u32) << 16) | (s[1].as_u64()? as u32),
                    channel_id: d.get("ch")?.as_u64()? as u8,
                    window_parent_lead: d.get("wpl")?.as_u64()? as u16,
                    channel_parent_lead: d.get("cpl")?.as_u64()? as u16,
                    fragment_id: d.get("frag")?.as_u64()? as u16,
                    fragment_id_last: d.get("last")?.as_u64()? as u16,
                    data: d.get("data")?.as_array()?.iter().map(|b| b.as_u64().unwrap_or(0) as u8).collect::<Vec<u8>>().into_boxed_slice(),
                });
            }
            uv::Frame::DataFrame(uv::DataFrame { sequence_id: g32("seq"), nonce: v.get("nonce")?.as_bool()?, datagrams: dgs })
        }
        "SYNC" => uv::Frame::SyncFrame(uv::SyncFrame {
            next_frame_id: if v.get("has_f")?.as_bool()? { Some(g32("nfid")) } else { None },
            next_packet_id: if v.get("has_p")?.as_bool()? { Some(g32("npid")) } else { None } }),
        "ACKF" => uv::Frame::AckFrame(uv::AckFrame { frame_window_base_id: g32("fbase"), packet_window_base_id: g32("pbase"),
            frame_acks: v.get("groups")?.as_array()?.iter().map(|g| uv::AckGroup { base_id: g.get("base").map(u32_of).unwrap_or(0), bitfield: g.get("bits").map(u32_of).unwrap_or(0), nonce: g.get("nonce").and_then(|x| x.as_bool()).unwrap_or(false) }).collect() }),
        _ => return None,
    })
}

fn fix_crc(b: &mut Vec<u8>) {
    let n = b.len();
    if n < 4 {
        return;
    }
    let crc = uv::crc_compute(&b[..n - 4]);
    b[n - 4] = (crc >> 24) as u8;
    b[n - 3] = (crc >> 16) as u8;
    b[n - 2] = (crc >> 8) as u8;
    b[n - 1] = crc as u8;
}

fn rand_datagram(r: &mut Rng, room: usize) -> uv::Datagram {
    let class = r.below(6);
    let (last, frag, wpl, cpl, maxlen): (u16, u16, u16, u16, usize) = match class {
        0 => (0, 0, r.below(128) as u16, r.below(256) as u16, 63),                 // micro
        1 => (0, 0, *r.pick(&[127u16, 128, 200, 65535]), *r.pick(&[255u16, 256, 0, 65535]), 63), // micro / small threshold on leads
        2 => (0, 0, r.next() as u16, r.next() as u16, 255),                       // small
        3 => (0, 0, r.next() as u16, r.next() as u16, 1448),                      // large (long payload)
        4 => { let l = r.range(1, 65535) as u16; (l, r.below(l as u64 + 1) as u16, r.next() as u16, r.next() as u16, 1448) } // fragment
        _ => (0, 0, 0, 0, *r.pick(&[0usize, 1, 62, 63, 64, 65, 254, 255, 256, 257])),
    };
    let len = match r.below(4) { 0 => maxlen, 1 => 0, _ => r.below(maxlen as u64 + 1) as usize }.min(room.saturating_sub(14)).min(1448);
    let anych = r.below(64) as u8;
    uv::Datagram { sequence_id: (r.next() as u32) & PID_MASK, channel_id: *r.pick(&[0u8, 15, 16, 31, 32, 47, 48, 63, anych]),
        window_parent_lead: wpl, channel_parent_lead: cpl, fragment_id: frag, fragment_id_last: last,
        data: (0..len).map(|_| r.next() as u8).collect::<Vec<u8>>().into_boxed_slice() }
}

fn rand_frame(r: &mut Rng) -> uv::Frame {
    let edge = |r: &mut Rng| -> u32 { match r.below(5) { 0 => 0, 1 => u32::MAX, 2 => 1 << r.below(32), _ => r.next() as u32 } };
    match r.below(12) {
        0 => uv::Frame::HandshakeSynFrame(uv::HandshakeSynFrame { version: r.next() as u8, nonce: edge(r), max_receive_rate: edge(r), max_packet_size: edge(r), max_receive_alloc: edge(r) }),
        1 => uv::Frame::HandshakeSynAckFrame(uv::HandshakeSynAckFrame { nonce_ack: edge(r), nonce: edge(r), max_receive_rate: edge(r), max_packet_size: edge(r), max_receive_alloc: edge(r) }),
        2 => uv::Frame::HandshakeAckFrame(uv::HandshakeAckFrame { nonce_ack: edge(r) }),
        3 => uv::Frame::HandshakeErrorFrame(uv::HandshakeErrorFrame { nonce_ack: edge(r), error: r.pick(&[uv::HandshakeErrorType::Version, uv::HandshakeErrorType::Config, uv::HandshakeErrorType::ServerFull]).clone() }),
        4 => uv::Frame::DisconnectFrame(uv::DisconnectFrame {}),
        5 => uv::Frame::DisconnectAckFrame(uv::DisconnectAckFrame {}),
        6 => uv::Frame::SyncFrame(uv::SyncFrame { next_frame_id: if r.chance(1, 2) { Some(edge(r)) } else { None }, next_packet_id: if r.chance(1, 2) { Some(edge(r)) } else { None } }),
        7 | 8 => {
            let anyn = r.below(162) as usize;
            let n = *r.pick(&[0usize, 1, 2, 10, 160, 161, anyn]);
            uv::Frame::AckFrame(uv::AckFrame { frame_window_base_id: edge(r), packet_window_base_id: edge(r),
                frame_acks: (0..n).map(|_| uv::AckGroup { base_id: edge(r), bitfield: edge(r), nonce: r.chance(1, 2) }).collect() })
        }
        _ => {
            let anyw = r.below(128) as usize;
            let want = *r.pick(&[0usize, 1, 1, 2, 5, 127, anyw]);
            let mut dgs = Vec::new();
            let mut room: usize = 1472 - 10;
            for _ in 0..want {
                if room < 6 {
                    break;
                }
                let mut d = rand_datagram(r, room);
                if want > 20 {
                    // many datagrams only fit when they are tiny
                    d.fragment_id_last = 0;
                    d.fragment_id = 0;
                    d.window_parent_lead %= 128;
                    d.channel_parent_lead %= 256;
                    let keep = d.data.len().min(room / (want - dgs.len()).max(1)).min(5);
                    d.data = d.data[..keep.min(d.data.len())].to_vec().into_boxed_slice();
                }
                let sz = uv::DataFrameBuilder::encoded_size(&(&d).into());
                if sz > room {
                    break;
                }
                room -= sz;
                dgs.push(d);
            }
            uv::Frame::DataFrame(uv::DataFrame { sequence_id: edge(r), nonce: r.chance(1, 2), datagrams: dgs })
        }
    }
}

fn log_codec(tr: &mut Trace, src: &str, f: &uv::Frame) -> Option<Vec<u8>> {
    let hang = json!({"ev": "Ret", "ep": "codec", "call": "write/read", "outcome": "hang", "msg": "no return", "file": "", "t": 0}).to_string();
    let r = guarded(&hang, || {
        let bytes = f.write();
        let back = uv::Frame::read(&bytes);
        (bytes, back)
    });
    match r {
        Ok((bytes, back)) => {
            let same = back.as_ref().map_or(false, |b| b == f);
            tr.line(json!({"ev": "Codec", "src": src, "frame": frame_to_json(f), "bytes": bytes.to_vec(), "read_some": back.is_some(), "read_same": same}));
            Some(bytes.to_vec())
        }
        Err(oc) => {
            tr.line(json!({"ev": "Ret", "ep": "codec", "call": "write/read", "outcome": "panic", "msg": oc.msg, "file": oc.file, "t": 0}));
            None
        }
    }
}

fn log_reject(tr: &mut Trace, kind: &str, bytes: &[u8]) {
    let hang = json!({"ev": "Ret", "ep": "codec", "call": "read", "outcome": "hang", "msg": "no return", "file": "", "t": 0}).to_string();
    let r = guarded(&hang, || {
        let parsed = uv::Frame::read(bytes);
        let reenc = match &parsed {
            Some(f) => uv::Frame::read(&f.write()).map_or(false, |g| &g == f),
            None => true,
        };
        (parsed.is_some(), reenc)
    });
    match r {
        Ok((parsed, reenc)) => tr.line(json!({"ev": "Reject", "kind": kind, "len": bytes.len(), "parsed": parsed, "reencodes": reenc})),
        Err(oc) => tr.line(json!({"ev": "Ret", "ep": "codec", "call": "read", "outcome": "panic", "msg": oc.msg, "file": oc.file, "t": 0, "kind": kind})),
    }
}

/// One CRC-valid input for the decoder: `body` is a frame without its CRC; the CRC of the real crc::compute is
/// appended (that function is bound to the polynomial by CrcSyn and by the Codec lines) and the outcome of the real
/// Frame::read is logged next to the body.  MonCodec compares it with Decode(body) of Codec.tla.
fn log_parse(tr: &mut Trace, src: &str, body: &[u8]) {
    if body.len() > 1468 {
        return;
    }
    let mut full = body.to_vec();
    full.extend_from_slice(&[0, 0, 0, 0]);
    fix_crc(&mut full);
    let hang = json!({"ev": "Ret", "ep": "codec", "call": "read", "outcome": "hang", "msg": "no return", "file": "", "t": 0}).to_string();
    let r = guarded(&hang, || uv::Frame::read(&full));
    match r {
        Ok(parsed) => {
            let fj = match &parsed { Some(f) => frame_to_json(f), None => json!({"t": "REJECT"}) };
            tr.line(json!({"ev": "Parse", "src": src, "body": body.to_vec(), "parsed": parsed.is_some(), "frame": fj}));
        }
        Err(oc) => tr.line(json!({"ev": "Ret", "ep": "codec", "call": "read", "outcome": "panic", "msg": oc.msg, "file": oc.file, "t": 0, "kind": src})),
    }
}

/// Malformed and field-mutated encodings enumerated by TLC from MC_Codec.tla (one {"body": [...]} per line), lines
/// start .. start + runs of the file.
pub fn run_mutants(tr: &mut Trace, path: &str, start: u64, runs: u64) {
    tr.line(json!({"ev": "Reset", "run": start, "seed": 0, "driver": "codec", "profile": "mutants"}));
    let text = std::fs::read_to_string(path).unwrap_or_default();
    let mut n = 0;
    if start == 0 {
        // ShortBodies of MC_Codec: the empty body (a datagram that is nothing but a checksum), every one-byte body, every
        // second byte after each known and some unknown type bytes
        log_parse(tr, "mutant", &[]);
        for a in 0..=255u8 {
            log_parse(tr, "mutant", &[a]);
        }
        for t in [0u8, 1, 2, 3, 4, 5, 10, 11, 12, 6, 13, 255] {
            for a in 0..=255u8 {
                log_parse(tr, "mutant", &[t, a]);
            }
        }
    }
    for line in text.lines().skip(start as usize).take(runs as usize) {
        if let Ok(v) = serde_json::from_str::<Value>(line) {
            if let Some(a) = v.get("body").and_then(|b| b.as_array()) {
                let body: Vec<u8> = a.iter().map(|x| x.as_u64().unwrap_or(0) as u8).collect();
                log_parse(tr, "mutant", &body);
                n += 1;
            }
        }
    }
    tr.line(json!({"ev": "End", "run": start, "dead": false, "calls": n}));
}

pub fn run_codec(tr: &mut Trace, run: u64, seed: u64, vectors: Option<&str>) {
    let mut r = Rng::new(seed);
    tr.line(json!({"ev": "Reset", "run": run, "seed": seed as i64 & 0x3FFFFFFF, "driver": "codec", "profile": if vectors.is_some() { "vectors" } else { "random" }}));
    let mut frames: Vec<uv::Frame> = Vec::new();
    if let Some(path) = vectors {
        let text = std::fs::read_to_string(path).unwrap_or_default();
        for line in text.lines() {
            if let Ok(v) = serde_json::from_str::<Value>(line) {
                if let Some(f) = frame_from_json(&v) {
                    frames.push(f);
                }
            }
        }
    } else {
        for _ in 0..40 {
            frames.push(rand_frame(&mut r));
        }
    }
    for f in frames.iter() {
        let bytes = match log_codec(tr, if vectors.is_some() { "vector" } else { "random" }, f) {
            Some(b) => b,
            None => continue,
        };
        // malformed variants of this frame
        let n = bytes.len();
        if n > 5 {
            let mut b = bytes.clone();
            let cut = r.range(1, (n - 5).min(40) as u64) as usize;
            b.drain(n - 4 - cut..n - 4);
            fix_crc(&mut b);
            log_reject(tr, "truncated", &b);
            log_parse(tr, "truncated", &b[..b.len() - 4]);
        }
        if n < 1472 {
            let mut b = bytes.clone();
            let extra = r.range(1, (1472 - n).min(30) as u64) as usize;
            let at = b.len() - 4;
            b.splice(at..at, (0..extra).map(|_| r.next() as u8));
            fix_crc(&mut b);
            log_reject(tr, "extended", &b);
            log_parse(tr, "extended", &b[..b.len() - 4]);
        }
        {
            let mut b = bytes.clone();
            let mut t = r.next() as u8;
            while [0u8, 1, 2, 3, 4, 5, 10, 11, 12].contains(&t) {
                t = r.next() as u8;
            }
            b[0] = t;
            fix_crc(&mut b);
            log_reject(tr, "unknown-type", &b);
            log_parse(tr, "unknown-type", &b[..b.len() - 4]);
        }
        if let uv::Frame::HandshakeErrorFrame(_) = f {
            let mut b = bytes.clone();
            b[5] = r.range(3, 255) as u8;
            fix_crc(&mut b);
            log_reject(tr, "bad-enum", &b);
            log_parse(tr, "bad-enum", &b[..b.len() - 4]);
        }
        for _ in 0..2 {
            // one byte of the genuine frame replaced (headers more often than payloads), CRC recomputed: the decoder
            // sees another frame, well-formed or not; Decode decides which
            let mut b = bytes[..n - 4].to_vec();
            let at = if r.chance(2, 3) { r.below(b.len().min(24) as u64) as usize } else { r.below(b.len() as u64) as usize };
            b[at] = match r.below(4) { 0 => b[at].wrapping_add(1), 1 => b[at].wrapping_sub(1), 2 => b[at] ^ (1 << r.below(8)), _ => r.next() as u8 };
            log_parse(tr, "byte-mutated", &b);
        }
        for _ in 0..3 {
            let mut b = bytes.clone();
            let k = r.range(1, 4);
            let mut pos = Vec::new();
            while pos.len() < k as usize {
                let p = r.below(n as u64 * 8) as usize;
                if !pos.contains(&p) {
                    pos.push(p);
                }
            }
            for p in pos {
                b[p / 8] ^= 1 << (p % 8);
            }
            log_reject(tr, "bitflip", &b);
        }
    }
    // exhaustive 1..4-bit error patterns on the short fixed-size frames (run 0 only): exercises the
    // CRC comparison itself, which the algebraic low-weight argument takes from reading the code
    if run == 0 && vectors.is_none() {
        let shorts: Vec<(&str, uv::Frame)> = vec![
            ("DISC", uv::Frame::DisconnectFrame(uv::DisconnectFrame {})),
            ("DISCACK", uv::Frame::DisconnectAckFrame(uv::DisconnectAckFrame {})),
            ("ACK", uv::Frame::HandshakeAckFrame(uv::HandshakeAckFrame { nonce_ack: r.next() as u32 })),
            ("ERR", uv::Frame::HandshakeErrorFrame(uv::HandshakeErrorFrame { nonce_ack: r.next() as u32, error: uv::HandshakeErrorType::Config })),
            ("SYNC", uv::Frame::SyncFrame(uv::SyncFrame { next_frame_id: Some(r.next() as u32), next_packet_id: Some((r.next() as u32) & PID_MASK) })),
        ];
        for (name, f) in shorts.iter() {
            let bytes = f.write().to_vec();
            let nb = bytes.len() * 8;
            let mut patterns: u64 = 0;
            let mut accepted: u64 = 0;
            let maxw = if nb > 100 { 3 } else { 4 };
            let mut b = bytes.clone();
            let flip = |b: &mut Vec<u8>, p: usize| b[p / 8] ^= 1 << (p % 8);
            for i in 0..nb {
                flip(&mut b, i);
                patterns += 1;
                accepted += uv::Frame::read(&b).is_some() as u64;
                for j in (i + 1)..nb {
                    flip(&mut b, j);
                    patterns += 1;
                    accepted += uv::Frame::read(&b).is_some() as u64;
                    for k in (j + 1)..nb {
                        flip(&mut b, k);
                        patterns += 1;
                        accepted += uv::Frame::read(&b).is_some() as u64;
                        if maxw >= 4 {
                            for m in (k + 1)..nb {
                                flip(&mut b, m);
                                patterns += 1;
                                accepted += uv::Frame::read(&b).is_some() as u64;
                                flip(&mut b, m);
                            }
                        }
                        flip(&mut b, k);
                    }
                    flip(&mut b, j);
                }
                flip(&mut b, i);
            }
            tr.line(json!({"ev": "FlipSweep", "frame": name, "bits": nb, "max_weight": maxw, "patterns": patterns.min(2_000_000_000), "accepted": accepted.min(2_000_000_000)}));
        }
    }
    // short and arbitrary inputs
    for n in 0..5 {
        let b: Vec<u8> = (0..n).map(|_| r.next() as u8).collect();
        log_reject(tr, "short", &b);
        // constant patterns: the CRC of the empty string is 0, so four zero bytes carry a "valid" checksum
        log_reject(tr, "short", &vec![0u8; n]);
        log_reject(tr, "short", &vec![0xFFu8; n]);
    }
    for _ in 0..30 {
        let n = r.below(1473) as usize;
        let mut b: Vec<u8> = (0..n).map(|_| r.next() as u8).collect();
        if n >= 5 && r.chance(4, 5) {
            b[0] = *r.pick(&[0u8, 1, 2, 3, 4, 5, 10, 11, 12]);
            if b[0] == 10 && n > 6 {
                b[5] = (b[5] & 0x80) | r.below(4) as u8;
            }
            if b[0] == 12 && n > 11 {
                b[9] = 0;
                b[10] = r.below(3) as u8;
            }
            fix_crc(&mut b);
            log_parse(tr, "random", &b[..b.len() - 4]);
        }
        log_reject(tr, "random", &b);
    }
    tr.line(json!({"ev": "End", "run": run, "dead": false, "calls": frames.len()}));
}

/// CRC table and single-bit syndromes extracted from the real crc::compute.
/// syn[b][d] = compute(e) ^ compute(0) for a message of 1468 bytes whose only set bit is bit b of
/// the byte that has d bytes after it.
pub fn crc_extract(out: &str) {
    const N: usize = 1468;
    let zero = vec![0u8; N];
    let c0 = uv::crc_compute(&zero);
    let mut syn: Vec<Vec<Value>> = Vec::new();
    for b in 0..8 {
        let mut row = Vec::new();
        for d in 0..N {
            let mut m = zero.clone();
            m[N - 1 - d] = 1 << b;
            let s = uv::crc_compute(&m) ^ c0;
            row.push(p32(s));
        }
        syn.push(row);
    }
    let table: Vec<Value> = (0..256u32).map(|i| p32(uv::crc_compute(&[i as u8]))).collect();
    // affinity of the whole function on seeded samples: c(x^y^z) = c(x)^c(y)^c(z) for equal lengths
    let mut r = Rng::new(12345);
    let mut affine_ok = 0;
    let mut affine_n = 0;
    for _ in 0..2000 {
        let n = r.range(1, 1468) as usize;
        let x: Vec<u8> = (0..n).map(|_| r.next() as u8).collect();
        let y: Vec<u8> = (0..n).map(|_| r.next() as u8).collect();
        let z: Vec<u8> = (0..n).map(|_| r.next() as u8).collect();
        let w: Vec<u8> = (0..n).map(|i| x[i] ^ y[i] ^ z[i]).collect();
        affine_n += 1;
        if uv::crc_compute(&w) == uv::crc_compute(&x) ^ uv::crc_compute(&y) ^ uv::crc_compute(&z) {
            affine_ok += 1;
        }
    }
    // position independence: the syndrome of a bit depends only on its distance from the end
    let mut shift_ok = 0;
    let mut shift_n = 0;
    for _ in 0..2000 {
        let n = r.range(1, 1468) as usize;
        let d = r.below(n as u64) as usize;
        let b = r.below(8) as usize;
        let mut m = vec![0u8; n];
        m[n - 1 - d] = 1 << b;
        let s = uv::crc_compute(&m) ^ uv::crc_compute(&vec![0u8; n]);
        shift_n += 1;
        if p32(s) == syn[b][d] {
            shift_ok += 1;
        }
    }
    let v = json!({"table": table, "syn": syn, "affine_ok": affine_ok, "affine_n": affine_n, "shift_ok": shift_ok, "shift_n": shift_n, "nbytes": N});
    std::fs::write(out, v.to_string()).unwrap();
}
