//! Direct driver for the TFRC rate controller (`SendRateComp`): seeded feedback histories, long
//! silences, frame-sent notifications.  After every call the state projection is logged next to
//! oracle values computed here, independently, from the RFC 5348 formulas.

use crate::common::*;
use serde_json::json;
use uflow::verif as uv;

const S: f64 = 1472.0;

/// RFC 5348 section 3.1 with t_RTO = 4R, b = 1.
fn x_bps(r: f64, p: f64) -> f64 {
    let f = (2.0 * p / 3.0).sqrt() + 12.0 * (3.0 * p / 8.0).sqrt() * p * (1.0 + 32.0 * p * p);
    S / (r * f)
}

fn clip(v: f64) -> i64 {
    if v.is_nan() { -1 } else if v > 2_000_000_000.0 { 2_000_000_000 } else if v < 0.0 { 0 } else { v as i64 }
}

fn state_json(st: &uv::VerifRateState) -> serde_json::Value {
    json!({"mode": st.mode, "x": (st.send_rate as i64).min(2_000_000_000), "rtt_us": st.rtt_s.map(|r| clip((r * 1e6).round())).unwrap_or(-1),
        "rtt_ms": st.rtt_ms.map(|v| v.min(2_000_000_000) as i64).unwrap_or(-1),
        "rto_ms": st.rto_ms.map(|v| v.min(2_000_000_000) as i64).unwrap_or(-1),
        "nofb_at": st.nofeedback_exp_ms.map(|v| v.min(2_000_000_000) as i64).unwrap_or(-1), "idle": st.nofeedback_idle,
        "tcp": st.send_rate_tcp.map(|v| (v as i64).min(2_000_000_000)).unwrap_or(-1),
        "nrecv": st.recv_rate_set.len()})
}

/// `bounded`: keep every value below 10^9 (receive rates, ceilings) so that the 32-bit integer model of
/// TfrcTrace.tla can follow the whole run; the unbounded runs are judged by MonTfrc.tla only.
pub fn run_tfrc(tr: &mut Trace, run: u64, seed: u64, bounded: bool) -> (u64, bool) {
    let mut r = Rng::new(seed);
    let ceiling: u32 = if bounded { *r.pick(&[1472u32, 1500, 3000, 20000, 100000, 2_000_000, 1_000_000_000]) } else { *r.pick(&[1472u32, 1500, 3000, 20000, 100000, 2_000_000, 2_000_000_000]) };
    let mut comp = uv::SendRateComp::new(ceiling);
    tr.line(json!({"ev": "Reset", "run": run, "seed": seed as i64 & 0x3FFFFFFF, "driver": "tfrc", "profile": "tfrc", "ceiling": ceiling}));
    let mut now: u64 = r.below(1000);
    let nops = r.range(20, 400);
    let rtt_style = r.below(5); // 0: tiny, 1: lan, 2: wan, 3: huge, 4: mixed
    let loss_style = r.below(4); // 0: none, 1: occasional, 2: heavy, 3: extreme values
    let mut p_cur: f64 = 0.0;
    let mut calls = 0u64;
    let mut dead = false;
    for _ in 0..nops {
        // time advance: mostly small, sometimes long silences
        now += match r.below(10) {
            0 => 0,
            1 => r.range(1000, 5000),
            2 => r.range(5000, 200_000),
            3 => *r.pick(&[2000u64, 4000, 64000, 128000]),
            _ => r.range(1, 300),
        };
        let kind = r.below(10);
        let pre = comp.verif_state();
        let hang = json!({"ev": "Ret", "ep": "tfrc", "call": "step", "outcome": "hang", "msg": "no return within 20 s of real time", "file": "", "t": now.min(2_000_000_000)}).to_string();
        calls += 1;
        if kind < 2 {
            let res = guarded(&hang, || comp.notify_frame_sent(now));
            tr.line(json!({"ev": "Op", "kind": "sent", "now": now.min(2_000_000_000)}));
            if let Err(oc) = res {
                tr.line(json!({"ev": "Ret", "ep": "tfrc", "call": "notify_frame_sent", "outcome": "panic", "msg": oc.msg, "file": oc.file, "t": 0}));
                dead = true;
                break;
            }
        } else if kind < 7 {
            let sample_ms: u64 = match (rtt_style, r.below(8)) {
                (0, _) if bounded => r.range(1, 3),
                (0, _) => r.below(3),
                (1, _) => r.range(1, 40),
                (2, _) => r.range(50, 800),
                (3, _) => r.range(2000, 60000),
                (_, 0) => 0,
                (_, 1) => r.range(10000, 60000),
                _ => r.range(0, 500),
            };
            let recv: u32 = match r.below(8) {
                0 => 0,
                1 if bounded => 1_000_000_000,
                3 if bounded => ((r.next() as u32) >> r.below(20)) % 1_000_000_001,
                1 => u32::MAX,
                2 => r.range(1, 100) as u32,
                3 => (r.next() as u32) >> r.below(20),
                _ => r.range(1000, 3_000_000) as u32,
            };
            p_cur = match loss_style {
                0 => 0.0,
                1 => if r.chance(1, 6) { (p_cur + r.f64() * 0.05).min(1.0) } else { p_cur * 0.9 },
                2 => if r.chance(1, 2) { (p_cur + r.f64() * 0.3).min(1.0) } else { p_cur * 0.7 },
                _ => *r.pick(&[0.0, 1e-9, 1e-6, 0.001, 0.5, 0.999999, 1.0]),
            };
            let rl = r.chance(1, 4);
            let mut reset_p: Option<f64> = None;
            let fb = uv::FeedbackData { rtt_ms: sample_ms, receive_rate: recv, loss_rate: p_cur, rate_limited: rl };
            let res = guarded(&hang, || comp.step(now, Some(fb), |p| reset_p = Some(p)));
            let post = comp.verif_state();
            let rtt_s = post.rtt_s.unwrap_or(0.0);
            tr.line(json!({"ev": "Op", "kind": "fb", "now": now.min(2_000_000_000), "sample_ms": sample_ms, "recv": (recv as i64).min(2_000_000_000),
                "p_ppm": (p_cur * 1e6) as i64, "loss_increase": p_cur > pre.prev_loss_rate, "rl": rl,
                "ora_xbps": if p_cur > 0.0 && rtt_s > 0.0 { clip(x_bps(rtt_s, p_cur)) } else { 2_000_000_000 },
                "ora_init": if rtt_s > 0.0 { clip(4380.0 / rtt_s) } else { 2_000_000_000 },
                "ora_lossinit": if rtt_s > 0.0 { clip(736.0 / rtt_s) } else { 2_000_000_000 },
                "ora_recv85": clip(recv as f64 * 0.85),
                "ora_reset_xbps": match reset_p { Some(p) if p > 0.0 && rtt_s > 0.0 => clip(x_bps(rtt_s, p)), Some(_) => 2_000_000_000, None => -1 },
                "has_reset": reset_p.is_some()}));
            if let Err(oc) = res {
                tr.line(json!({"ev": "Ret", "ep": "tfrc", "call": "step(feedback)", "outcome": "panic", "msg": oc.msg, "file": oc.file, "t": 0}));
                dead = true;
                break;
            }
        } else {
            let res = guarded(&hang, || comp.step(now, None, |_| ()));
            let ora_init = match pre.rtt_s { Some(r) if r > 0.0 => clip(4380.0 / r), Some(_) => 2_000_000_000, None => -1 };
            tr.line(json!({"ev": "Op", "kind": "tick", "now": now.min(2_000_000_000), "ora_init": ora_init}));
            if let Err(oc) = res {
                tr.line(json!({"ev": "Ret", "ep": "tfrc", "call": "step(no feedback)", "outcome": "panic", "msg": oc.msg, "file": oc.file, "t": 0}));
                dead = true;
                break;
            }
        }
        let mut st = state_json(&comp.verif_state());
        st["ev"] = json!("State");
        tr.line(st);
        if now > 1_500_000_000 {
            break;
        }
    }
    tr.line(json!({"ev": "End", "run": run, "dead": dead, "calls": calls}));
    (calls, dead)
}
