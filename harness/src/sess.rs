//! Session driver: a real `Server` and several real `Client`s on 127.0.0.1, each client talking to
//! the server through a harness-owned relay socket, so that every datagram can be logged, delayed,
//! dropped, duplicated, corrupted or replaced.  Single-threaded; virtual clock.

use crate::common::*;
use serde_json::{json, Value};
use std::collections::HashMap;
use std::net::{SocketAddr, UdpSocket};
use uflow::verif as uv;
use uflow::verif::Serialize;
use uflow::SendMode;
use uflow::{client, server, EndpointConfig};

pub struct ClientSlot {
    pub name: String,
    pub client: Option<client::Client>,
    pub relay: UdpSocket,
    pub relay_addr: SocketAddr,
    pub client_addr: Option<SocketAddr>,
    pub cfg: EndpointConfig,
    pub connected_at: Option<u64>,
    pub client_nonce: Option<u32>,          // nonce of the SYNs this client object sends
    pub accepted_server_nonce: Option<u32>, // nonce_ack of the first handshake ACK this client sent
    pub finished: bool,                     // this client object has reported its terminal event
    pub reconnects: u32,
}

pub struct Held {
    pub idx: u64,
    pub to_server: bool,
    pub slot: usize,
    pub bytes: Vec<u8>,
    pub due: u64,
}

pub struct Sess {
    pub server: Option<server::Server>,
    pub server_addr: SocketAddr,
    pub slots: Vec<ClientSlot>,
    pub raw: Vec<UdpSocket>, // hostile / spoofed peers talking to the server directly
    pub held: Vec<Held>,
    pub wire_idx: u64,
    pub t0_ns: u64,
    pub uid_next: u32,
    pub uid_len: HashMap<u32, usize>,
    /// Reliable packets too short to carry their uid (0..3 bytes), outstanding per (slot, sent by the server), oldest first:
    /// an arriving short payload of that length is the oldest one not yet delivered (all of them are Reliable, so all arrive)
    pub short_out: HashMap<(usize, bool), Vec<(u32, usize)>>,
    pub dead: bool,
    pub calls: u64,
    pub quiet_stepend: HashMap<String, u64>, // ep -> time of the last logged StepEnd
    pub fwd_since_step: HashMap<String, bool>,
    pub full_steps: bool, // log every StepEnd (needed by the lock-step conformance model)
}

fn set_rcvbuf(s: &UdpSocket) {
    use std::os::unix::io::AsRawFd;
    let v: libc::c_int = 64 << 20;
    unsafe {
        if libc::setsockopt(s.as_raw_fd(), libc::SOL_SOCKET, 33 /* SO_RCVBUFFORCE */, &v as *const _ as *const libc::c_void, 4) != 0 {
            libc::setsockopt(s.as_raw_fd(), libc::SOL_SOCKET, libc::SO_RCVBUF, &v as *const _ as *const libc::c_void, 4);
        }
    }
}

pub fn describe_frame(bytes: &[u8]) -> Value {
    match uv::Frame::read(bytes) {
        None => json!({"type": "garbage"}),
        Some(uv::Frame::HandshakeSynFrame(f)) => json!({"type": "SYN", "nonce": (f.nonce >> 1) as i64, "nonce_lsb": f.nonce & 1, "version": f.version,
            "max_receive_rate": (f.max_receive_rate as i64).min(2_000_000_000), "max_packet_size": (f.max_packet_size as i64).min(2_000_000_000), "max_receive_alloc": (f.max_receive_alloc as i64).min(2_000_000_000)}),
        Some(uv::Frame::HandshakeSynAckFrame(f)) => json!({"type": "SYNACK", "nonce": (f.nonce >> 1) as i64, "nonce_lsb": f.nonce & 1, "nonce_ack": (f.nonce_ack >> 1) as i64, "nonce_ack_lsb": f.nonce_ack & 1,
            "max_receive_rate": (f.max_receive_rate as i64).min(2_000_000_000), "max_packet_size": (f.max_packet_size as i64).min(2_000_000_000), "max_receive_alloc": (f.max_receive_alloc as i64).min(2_000_000_000)}),
        Some(uv::Frame::HandshakeAckFrame(f)) => json!({"type": "ACK", "nonce_ack": (f.nonce_ack >> 1) as i64, "nonce_ack_lsb": f.nonce_ack & 1}),
        Some(uv::Frame::HandshakeErrorFrame(f)) => json!({"type": "ERR", "nonce_ack": (f.nonce_ack >> 1) as i64, "nonce_ack_lsb": f.nonce_ack & 1,
            "err": match f.error { uv::HandshakeErrorType::Version => "Version", uv::HandshakeErrorType::Config => "Config", uv::HandshakeErrorType::ServerFull => "ServerFull" }}),
        Some(uv::Frame::DisconnectFrame(_)) => json!({"type": "DISC"}),
        Some(uv::Frame::DisconnectAckFrame(_)) => json!({"type": "DISCACK"}),
        Some(uv::Frame::DataFrame(f)) => json!({"type": "DATA", "fid": (f.sequence_id >> 1) as i64, "fid_lsb": f.sequence_id & 1, "ndg": f.datagrams.len(),
            "pid0": f.datagrams.first().map(|d| d.sequence_id as i64).unwrap_or(-1)}),
        Some(uv::Frame::SyncFrame(_)) => json!({"type": "SYNC"}),
        Some(uv::Frame::AckFrame(_)) => json!({"type": "ACKF"}),
    }
}

impl Sess {
    pub fn new(cfg: server::Config) -> Self {
        let t0 = vnow_ns();
        let server = server::Server::bind("127.0.0.1:0", cfg).expect("bind");
        let server_addr = server.address();
        Self { server: Some(server), server_addr, slots: Vec::new(), raw: Vec::new(), held: Vec::new(), wire_idx: 0, t0_ns: t0,
               uid_next: 1, uid_len: HashMap::new(), short_out: HashMap::new(), dead: false, calls: 0, quiet_stepend: HashMap::new(), fwd_since_step: HashMap::new(), full_steps: std::env::var("UVH_FULL_STEPS").is_ok() }
    }

    pub fn t_ms(&self) -> u64 {
        (vnow_ns() - self.t0_ns) / 1_000_000
    }

    pub fn add_slot(&mut self, cfg: EndpointConfig) -> usize {
        let relay = UdpSocket::bind("127.0.0.1:0").expect("relay bind");
        relay.set_nonblocking(true).unwrap();
        set_rcvbuf(&relay);
        let relay_addr = relay.local_addr().unwrap();
        let i = self.slots.len();
        self.slots.push(ClientSlot { name: format!("c{}", i), client: None, relay, relay_addr, client_addr: None, cfg, connected_at: None, client_nonce: None, accepted_server_nonce: None, finished: false, reconnects: 0 });
        i
    }

    pub fn add_raw(&mut self) -> usize {
        let s = UdpSocket::bind("127.0.0.1:0").expect("raw bind");
        s.set_nonblocking(true).unwrap();
        set_rcvbuf(&s);
        self.raw.push(s);
        self.raw.len() - 1
    }

    pub fn peer_name(&self, addr: &SocketAddr) -> String {
        for s in self.slots.iter() {
            if s.relay_addr == *addr {
                return s.name.clone();
            }
        }
        for (i, r) in self.raw.iter().enumerate() {
            if r.local_addr().ok() == Some(*addr) {
                return format!("x{}", i);
            }
        }
        "unknown".to_string()
    }

    fn hang_line(&self, ep: &str, call: &str) -> String {
        json!({"ev": "Ret", "ep": ep, "call": call, "outcome": "hang", "msg": "no return within 20 s of real time", "file": "", "t": self.t_ms()}).to_string()
    }

    fn ret_panic(&mut self, tr: &mut Trace, ep: &str, call: &str, oc: CallOutcome) {
        tr.line(json!({"ev": "Ret", "ep": ep, "call": call, "outcome": "panic", "msg": oc.msg, "file": oc.file, "t": self.t_ms()}));
        self.dead = true;
    }

    // ------------------------------------------------------------------------------ client calls
    pub fn connect(&mut self, tr: &mut Trace, i: usize) {
        if self.dead {
            return;
        }
        let cfg = client::Config { endpoint_config: self.slots[i].cfg.clone() };
        let addr = self.slots[i].relay_addr;
        let hl = self.hang_line(&self.slots[i].name, "connect");
        self.calls += 1;
        match guarded(&hl, || client::Client::connect(addr, cfg)) {
            Ok(Ok(c)) => {
                self.slots[i].client_addr = Some(c.local_address());
                self.slots[i].client = Some(c);
                self.slots[i].connected_at = Some(self.t_ms());
                self.slots[i].client_nonce = None;
                self.slots[i].accepted_server_nonce = None;
                self.slots[i].finished = false;
                self.short_out.remove(&(i, true));
                self.short_out.remove(&(i, false));
                let c = &self.slots[i].cfg;
                tr.line(json!({"ev": "Connect", "ep": self.slots[i].name, "t": self.t_ms(),
                    "timeout": c.active_timeout_ms.min(2_000_000_000), "keepalive": if c.keepalive { c.keepalive_interval_ms.min(2_000_000_000) as i64 } else { -1 },
                    "max_packet_size": c.max_packet_size.min(2_000_000_000), "max_receive_alloc": c.max_receive_alloc.min(2_000_000_000),
                    "max_send_rate": c.max_send_rate.min(2_000_000_000), "max_receive_rate": c.max_receive_rate.min(2_000_000_000)}));
            }
            Ok(Err(e)) => {
                eprintln!("TOOL-ERROR: connect failed: {}", e);
                std::process::exit(2);
            }
            Err(oc) => {
                let n = self.slots[i].name.clone();
                self.ret_panic(tr, &n, "connect", oc)
            }
        }
    }

    fn log_client_events(&mut self, tr: &mut Trace, i: usize, evs: Vec<client::Event>) {
        let name = self.slots[i].name.clone();
        let t = self.t_ms();
        for ev in evs.into_iter() {
            match ev {
                client::Event::Connect => {
                    tr.line(json!({"ev": "Event", "ep": name, "peer": "s", "kind": "Connect", "t": t}));
                    // the limits this end holds for the connection it has just reported (cfg(uflow_verif) accessor)
                    if let Some(l) = self.slots[i].client.as_ref().and_then(|c| c.verif_limits()) {
                        tr.line(json!({"ev": "Limits", "ep": name, "peer": "s", "t": t, "tx_alloc": l.tx_alloc_limit.min(2_000_000_000), "rx_alloc": l.rx_alloc_limit.min(2_000_000_000),
                            "rate": (l.max_send_rate as u64).min(2_000_000_000)}));
                    }
                }
                client::Event::Disconnect => {
                    self.slots[i].finished = true;
                    tr.line(json!({"ev": "Event", "ep": name, "peer": "s", "kind": "Disconnect", "t": t}))
                }
                client::Event::Error(e) => {
                    self.slots[i].finished = true;
                    tr.line(json!({"ev": "Event", "ep": name, "peer": "s", "kind": "Error", "err": format!("{:?}", e), "t": t}))
                }
                client::Event::Receive(p) => {
                    let (uid, m) = self.identify_from(Some(i), true, &p);
                    tr.line(json!({"ev": "Event", "ep": name, "peer": "s", "kind": "Receive", "uid": uid, "match": m, "len": p.len(), "t": t}));
                }
            }
        }
    }

    fn identify_from(&mut self, slot: Option<usize>, from_server: bool, p: &[u8]) -> (i64, bool) {
        if p.len() < 4 {
            if let Some(i) = slot {
                if let Some(q) = self.short_out.get_mut(&(i, from_server)) {
                    if let Some(pos) = q.iter().position(|(u, l)| *l == p.len() && payload(*u, *l)[..] == p[..]) {
                        let (u, _) = q.remove(pos);
                        return (u as i64, true);
                    }
                }
            }
            return (-1, false);
        }
        self.identify(p)
    }

    fn identify(&self, p: &[u8]) -> (i64, bool) {
        if p.len() >= 4 {
            let uid = u32::from_le_bytes([p[0], p[1], p[2], p[3]]);
            if let Some(&len) = self.uid_len.get(&uid) {
                return (uid as i64, len == p.len() && &payload(uid, len)[..] == p);
            }
        }
        (-1, false)
    }

    pub fn step_client(&mut self, tr: &mut Trace, i: usize) {
        if self.dead || self.slots[i].client.is_none() {
            return;
        }
        let name = self.slots[i].name.clone();
        let hl = self.hang_line(&name, "step");
        self.calls += 1;
        let r = {
            let c = self.slots[i].client.as_mut().unwrap();
            guarded(&hl, || c.step().collect::<Vec<_>>())
        };
        match r {
            Ok(evs) => {
                let busy = !evs.is_empty() || self.fwd_since_step.remove(&name).unwrap_or(false);
                self.log_client_events(tr, i, evs);
                // quiet steps (no event, nothing received) are logged at most once per virtual second
                let t = self.t_ms();
                if busy || self.full_steps || t >= self.quiet_stepend.get(&name).copied().unwrap_or(0) + 1000 {
                    self.quiet_stepend.insert(name.clone(), t);
                    let c = self.slots[i].client.as_ref().unwrap();
                    tr.line(json!({"ev": "StepEnd", "ep": name, "t": t, "active": c.is_active(), "bufsize": c.send_buffer_size().min(2_000_000_000)}));
                }
            }
            Err(oc) => self.ret_panic(tr, &name, "step", oc),
        }
        self.pump(tr);
    }

    pub fn step_server(&mut self, tr: &mut Trace) {
        if self.dead || self.server.is_none() {
            return;
        }
        let hl = self.hang_line("s", "step");
        self.calls += 1;
        let r = {
            let s = self.server.as_mut().unwrap();
            guarded(&hl, || s.step().collect::<Vec<_>>())
        };
        match r {
            Ok(evs) => {
                let t = self.t_ms();
                let busy = !evs.is_empty() || self.fwd_since_step.remove("s").unwrap_or(false);
                let log_end = busy || self.full_steps || t >= self.quiet_stepend.get("s").copied().unwrap_or(0) + 1000;
                for ev in evs.into_iter() {
                    match ev {
                        server::Event::Connect(a) => {
                            tr.line(json!({"ev": "Event", "ep": "s", "peer": self.peer_name(&a), "kind": "Connect", "t": t}));
                            let lim = self.server.as_ref().and_then(|s| s.client(&a)).and_then(|rc| rc.borrow().verif_limits());
                            if let Some(l) = lim {
                                tr.line(json!({"ev": "Limits", "ep": "s", "peer": self.peer_name(&a), "t": t, "tx_alloc": l.tx_alloc_limit.min(2_000_000_000),
                                    "rx_alloc": l.rx_alloc_limit.min(2_000_000_000), "rate": (l.max_send_rate as u64).min(2_000_000_000)}));
                            }
                        }
                        server::Event::Disconnect(a) => tr.line(json!({"ev": "Event", "ep": "s", "peer": self.peer_name(&a), "kind": "Disconnect", "t": t})),
                        server::Event::Error(a, e) => tr.line(json!({"ev": "Event", "ep": "s", "peer": self.peer_name(&a), "kind": "Error", "err": format!("{:?}", e), "t": t})),
                        server::Event::Receive(a, p) => {
                            let slot = self.slots.iter().position(|c| c.relay_addr == a);
                            let (uid, m) = self.identify_from(slot, false, &p);
                            tr.line(json!({"ev": "Event", "ep": "s", "peer": self.peer_name(&a), "kind": "Receive", "uid": uid, "match": m, "len": p.len(), "t": t}));
                        }
                    }
                }
                // which addresses does the server track / consider active now
                let s = self.server.as_ref().unwrap();
                let mut tracked = Vec::new();
                let mut ntracked = 0;
                let mut nactive = 0;
                let mut addrs: Vec<(String, SocketAddr)> = self.slots.iter().map(|c| (c.name.clone(), c.relay_addr)).collect();
                for (k, r) in self.raw.iter().enumerate() {
                    addrs.push((format!("x{}", k), r.local_addr().unwrap()));
                }
                for (name, a) in addrs.iter() {
                    if let Some(rc) = s.client(a) {
                        let act = rc.borrow().is_active();
                        ntracked += 1;
                        nactive += act as u32;
                        tracked.push(json!({"peer": name, "active": act, "bufsize": rc.borrow().send_buffer_size().min(2_000_000_000)}));
                    }
                }
                if log_end {
                    self.quiet_stepend.insert("s".to_string(), t);
                    tr.line(json!({"ev": "StepEnd", "ep": "s", "t": t, "tracked": tracked, "ntracked": ntracked, "nactive": nactive}));
                }
            }
            Err(oc) => self.ret_panic(tr, "s", "step", oc),
        }
        self.pump(tr);
    }

    pub fn app_send(&mut self, tr: &mut Trace, from_server: bool, i: usize, ch: usize, mode: SendMode, len: usize) {
        if self.dead {
            return;
        }
        let uid = self.uid_next;
        self.uid_next += 1;
        // payloads carry their uid in the first four bytes; shorter ones (empty packets) are allowed for Reliable packets
        // only and are identified by order of submission (see short_out)
        let len = if mode == SendMode::Reliable { len } else { len.max(4) };
        self.uid_len.insert(uid, len);
        if len < 4 {
            self.short_out.entry((i, from_server)).or_default().push((uid, len));
        }
        let data = payload(uid, len);
        let name = self.slots[i].name.clone();
        let (ep, peer) = if from_server { ("s".to_string(), name.clone()) } else { (name.clone(), "s".to_string()) };
        let hl = self.hang_line(&ep, "send");
        self.calls += 1;
        let mut accepted = true;
        let r = if from_server {
            let addr = self.slots[i].relay_addr;
            let s = self.server.as_mut().unwrap();
            match s.client(&addr) {
                Some(rc) => {
                    let rc = rc.clone();
                    accepted = rc.borrow().is_active();
                    guarded(&hl, || rc.borrow_mut().send(data, ch, mode))
                }
                None => {
                    accepted = false;
                    Ok(())
                }
            }
        } else {
            match self.slots[i].client.as_mut() {
                Some(c) => guarded(&hl, || c.send(data, ch, mode)),
                None => {
                    accepted = false;
                    Ok(())
                }
            }
        };
        tr.line(json!({"ev": "App", "ep": ep, "peer": peer, "call": "send", "uid": uid, "ch": ch, "mode": crate::hc::mode_str(mode), "len": len, "accepted_active": accepted, "t": self.t_ms()}));
        if let Err(oc) = r {
            self.ret_panic(tr, &ep, "send", oc);
        }
    }

    pub fn app_disconnect(&mut self, tr: &mut Trace, from_server: bool, i: usize, now: bool) {
        if self.dead {
            return;
        }
        let name = self.slots[i].name.clone();
        let (ep, peer) = if from_server { ("s".to_string(), name.clone()) } else { (name.clone(), "s".to_string()) };
        if from_server {
            let addr = self.slots[i].relay_addr;
            if let Some(rc) = self.server.as_mut().unwrap().client(&addr) {
                if now { rc.borrow_mut().disconnect_now() } else { rc.borrow_mut().disconnect() }
            }
        } else if let Some(c) = self.slots[i].client.as_mut() {
            if now { c.disconnect_now() } else { c.disconnect() }
        }
        tr.line(json!({"ev": "App", "ep": ep, "peer": peer, "call": if now { "disconnect_now" } else { "disconnect" }, "t": self.t_ms()}));
    }

    pub fn app_drop(&mut self, tr: &mut Trace, i: usize) {
        if self.dead {
            return;
        }
        let addr = self.slots[i].relay_addr;
        self.server.as_mut().unwrap().drop(&addr);
        tr.line(json!({"ev": "App", "ep": "s", "peer": self.slots[i].name, "call": "drop", "t": self.t_ms()}));
    }

    pub fn app_flush(&mut self, tr: &mut Trace, from_server: bool, i: usize) {
        if self.dead {
            return;
        }
        if from_server {
            self.server.as_mut().unwrap().flush();
        } else if let Some(c) = self.slots[i].client.as_mut() {
            c.flush();
        }
        self.pump(tr);
    }

    // ----------------------------------------------------------------------------------- network
    /// Fate callback: decides what happens to a datagram seen on a relay.
    pub fn pump(&mut self, tr: &mut Trace) {
        // collect everything currently readable on the relays and raw sockets
        let mut buf = [0u8; 2048];
        let mut seen: Vec<(usize, bool, Vec<u8>)> = Vec::new(); // (slot, to_server, bytes)
        for (i, s) in self.slots.iter().enumerate() {
            loop {
                match s.relay.recv_from(&mut buf) {
                    Ok((n, from)) => {
                        let to_server = from != self.server_addr;
                        seen.push((i, to_server, buf[..n].to_vec()));
                    }
                    Err(_) => break,
                }
            }
        }
        let mut raw_seen: Vec<(usize, Vec<u8>)> = Vec::new();
        for (i, s) in self.raw.iter().enumerate() {
            loop {
                match s.recv_from(&mut buf) {
                    Ok((n, _)) => raw_seen.push((i, buf[..n].to_vec())),
                    Err(_) => break,
                }
            }
        }
        let t = self.t_ms();
        for (i, to_server, bytes) in seen.into_iter() {
            let idx = self.wire_idx;
            self.wire_idx += 1;
            let mut d = describe_frame(&bytes);
            // bookkeeping of the nonces this client object uses, and frame ids relative to them
            match uv::Frame::read(&bytes) {
                Some(uv::Frame::HandshakeSynFrame(f)) if to_server && self.slots[i].client_nonce.is_none() => self.slots[i].client_nonce = Some(f.nonce),
                Some(uv::Frame::HandshakeAckFrame(f)) if to_server && self.slots[i].accepted_server_nonce.is_none() => self.slots[i].accepted_server_nonce = Some(f.nonce_ack),
                Some(uv::Frame::DataFrame(f)) => {
                    let base = if to_server { self.slots[i].client_nonce } else { self.slots[i].accepted_server_nonce };
                    d["seq_rel"] = json!(base.map(|b| { let r = f.sequence_id.wrapping_sub(b); if r < 0x4000_0000 { r as i64 } else { -1 } }).unwrap_or(-2));
                }
                Some(uv::Frame::AckFrame(f)) => {
                    // an ack frame reports the sender's receive window base, i.e. it counts from the PEER's nonce
                    let base = if to_server { self.slots[i].accepted_server_nonce } else { self.slots[i].client_nonce };
                    d["seq_rel"] = json!(base.map(|b| { let r = f.frame_window_base_id.wrapping_sub(b); if r < 0x4000_0000 { r as i64 } else { -1 } }).unwrap_or(-2));
                }
                _ => {}
            }
            d["ev"] = json!("Wire");
            d["idx"] = json!(idx);
            d["from"] = json!(if to_server { self.slots[i].name.clone() } else { "s".to_string() });
            d["to"] = json!(if to_server { "s".to_string() } else { self.slots[i].name.clone() });
            d["len"] = json!(bytes.len());
            d["t"] = json!(t);
            tr.line(d);
            self.held.push(Held { idx, to_server, slot: i, bytes, due: u64::MAX });
        }
        for (i, bytes) in raw_seen.into_iter() {
            let idx = self.wire_idx;
            self.wire_idx += 1;
            let mut d = describe_frame(&bytes);
            d["ev"] = json!("Wire");
            d["idx"] = json!(idx);
            d["from"] = json!("s");
            d["to"] = json!(format!("x{}", i));
            d["len"] = json!(bytes.len());
            d["t"] = json!(t);
            tr.line(d);
        }
    }

    /// Forward one held datagram to its destination socket now.
    pub fn forward(&mut self, tr: &mut Trace, h: &Held, fate: &str) {
        let s = &self.slots[h.slot];
        if h.to_server {
            let _ = s.relay.send_to(&h.bytes, self.server_addr);
        } else if let Some(a) = s.client_addr {
            let _ = s.relay.send_to(&h.bytes, a);
        }
        let dest = if h.to_server { "s".to_string() } else { s.name.clone() };
        let mut d = describe_frame(&h.bytes);
        d["ev"] = json!("Fwd");
        d["idx"] = json!(h.idx);
        d["from"] = json!(if h.to_server { s.name.clone() } else { "s".to_string() });
        d["to"] = json!(if h.to_server { "s".to_string() } else { s.name.clone() });
        d["len"] = json!(h.bytes.len());
        d["fate"] = json!(fate);
        d["t"] = json!(self.t_ms());
        tr.line(d);
        self.fwd_since_step.insert(dest, true);
    }

    /// Inject a forged datagram as if it came from slot i's address (to the server) or from the
    /// server (to client i).
    pub fn inject(&mut self, tr: &mut Trace, i: usize, to_server: bool, bytes: Vec<u8>) {
        let idx = self.wire_idx;
        self.wire_idx += 1;
        let h = Held { idx, to_server, slot: i, bytes, due: 0 };
        self.forward(tr, &h, "forged");
    }

    pub fn inject_raw(&mut self, tr: &mut Trace, k: usize, bytes: Vec<u8>) {
        let idx = self.wire_idx;
        self.wire_idx += 1;
        let _ = self.raw[k].send_to(&bytes, self.server_addr);
        let mut d = describe_frame(&bytes);
        d["ev"] = json!("Fwd");
        d["idx"] = json!(idx);
        d["from"] = json!(format!("x{}", k));
        d["to"] = json!("s");
        d["len"] = json!(bytes.len());
        d["fate"] = json!("forged");
        d["t"] = json!(self.t_ms());
        tr.line(d);
        self.fwd_since_step.insert("s".to_string(), true);
    }
}
