//! Twin runs (C15): the same seeded scenario is executed twice on two fresh pairs of real
//! HalfConnections; the second execution additionally hands forged and replayed acknowledgement
//! frames to the sender.  Everything the sender does afterwards must coincide with the first
//! execution: emitted frames, RTT estimate, send rate, pending flag, buffer size, deliveries.

use crate::common::*;
use crate::hc::*;
use serde_json::json;
use uflow::verif as uv;
use uflow::verif::Serialize;
use uflow::SendMode;

fn fnv(h: &mut u64, bytes: &[u8]) {
    for b in bytes {
        *h ^= *b as u64;
        *h = h.wrapping_mul(0x100000001b3);
    }
}

/// `noinject`: the second execution chooses its injections as usual but does not hand them over (self-test of
/// the harness: the two executions must then be indistinguishable).
pub fn run_twin(tr: &mut Trace, run: u64, seed: u64, noinject: bool) -> u64 {
    let mut null = Trace::create("/dev/null");
    let mut injected_total = 0;
    let mut r0 = Rng::new(seed);
    let pw = *r0.pick(&[4u32, 16, 64, 4096]);
    let fw = *r0.pick(&[4u32, 16, 4096]);
    let cfg = PairCfg { pw, fw, pbase: [r0.next() as u32 & PID_MASK, r0.next() as u32 & PID_MASK], fbase: [r0.next() as u32, r0.next() as u32],
        rx_alloc: [1000000, 1000000], bw: [*r0.pick(&[20000u32, 200000, 2000000]), 2000000], keepalive: None };
    let rounds = r0.range(40, 250);
    let cadence = *r0.pick(&[5u64, 20, 50]);
    let latency = *r0.pick(&[0u64, 10, 60]);
    let p_drop = *r0.pick(&[0u64, 0, 10, 30]);
    let inj_kind_bias = r0.below(4);
    // acknowledgement frames overtake one another in some runs (so that a group arrives after a later one has been
    // processed: the situation in which a merged repeat, see below, can be built)
    let ack_jitter = *r0.pick(&[20u64, 20, 120, 300]);
    tr.line(json!({"ev": "Reset", "run": run, "seed": seed as i64 & 0x3FFFFFFF, "driver": "hc-twin", "profile": "twin", "cfg": {"pw": pw, "fw": fw}, "latency": latency, "cadence": cadence}));
    for twin in 0..2u32 {
        let mut r = Rng::new(seed ^ 0xABCD);           // scenario choices: identical in both twins
        let mut ri = Rng::new(seed ^ 0x1234567);        // injection choices: used by twin 1 only
        crate::hc_random::uflow_rand_seed(seed);
        // both executions start at the same virtual time offset from their own origin
        let mut p = Pair::new(cfg.clone());
        p.log_probe = false;
        let mut acks_seen: Vec<Vec<u8>> = Vec::new();   // genuine ack frames delivered to a
        let mut sent_nonce: std::collections::HashMap<u32, bool> = std::collections::HashMap::new();   // frame id -> nonce bit of a's data frames
        let mut acked_ids: std::collections::HashSet<u32> = std::collections::HashSet::new();         // frame ids a genuine ack delivered to a has claimed
        let mut delivered: u64 = 0;
        let mut due_fix: Vec<(u64, usize, u64, Box<[u8]>)> = Vec::new();
        for k in 0..rounds {
            advance_ms(cadence);
            let now = p.t_ms();
            let mut h: u64 = 0xcbf29ce484222325;
            let mut nframes = 0;
            let mut nbytes = 0;
            for e in 0..2usize {
                if e == 0 && r.chance(50, 100) {
                    let n = r.range(1, 3);
                    for _ in 0..n {
                        let len = *r.pick(&[10usize, 200, 1448, 1449, 3000, 6000]);
                        let mode = *r.pick(&[SendMode::Unreliable, SendMode::Persistent, SendMode::Reliable, SendMode::Reliable]);
                        p.send(&mut null, 0, r.below(3) as u8, mode, len);
                    }
                }
                let frames = p.flush(&mut null, e, None);
                for (idx, bytes) in frames.into_iter() {
                    if e == 0 {
                        fnv(&mut h, &bytes);
                        nframes += 1;
                        nbytes += bytes.len();
                        if let Some(uv::Frame::DataFrame(df)) = uv::Frame::read(&bytes) {
                            sent_nonce.insert(df.sequence_id, df.nonce);
                        }
                    }
                    let dropped = r.chance(p_drop, 100);
                    let jitter = r.below(if e == 1 { ack_jitter } else { 20 });
                    if !dropped {
                        due_fix.push((now + latency + jitter, e, idx, bytes));
                    }
                }
                // deliver what is due for e, in a deterministic order
                let mut rest = Vec::new();
                let mut ready = Vec::new();
                for f in std::mem::take(&mut due_fix).into_iter() {
                    if f.1 == 1 - e && f.0 <= now { ready.push(f) } else { rest.push(f) }
                }
                due_fix = rest;
                ready.sort_by_key(|f| (f.0, f.2));
                for f in ready.into_iter() {
                    let mut handed: Vec<u8> = f.3.to_vec();
                    if e == 0 {
                        if let Some(uv::Frame::AckFrame(a)) = uv::Frame::read(&f.3) {
                            if acks_seen.len() < 256 {
                                acks_seen.push(f.3.to_vec());
                            }
                            // twin 1: a genuine group is handed over with the acknowledgement of an already acknowledged frame
                            // merged into it (one more bit set, nonce parity adjusted).  The merged part repeats an earlier
                            // acknowledgement and must have no effect: the sender has to end up exactly as with the genuine group.
                            let aug = ri.chance(30, 100);
                            if twin == 1 && aug && !noinject && std::env::var("UVH_TWIN_NOINJECT").is_err() {
                                if let Some(hc) = p.ep[0].hc.as_ref() {
                                    let sn = hc.verif_snapshot();
                                    let mut a2 = a.clone();
                                    let mut changed = false;
                                    for g in a2.frame_acks.iter_mut() {
                                        if g.bitfield == 0 {
                                            continue;
                                        }
                                        // candidates: already acknowledged ids within the group's 32-id span, not yet claimed by it,
                                        // such that the whole span up to them is still in the sender's log
                                        let in_log = |id: u32| id.wrapping_sub(sn.f_log_base) < sn.f_next.wrapping_sub(sn.f_log_base);
                                        let cands: Vec<u32> = (1..32u32).filter(|i| g.bitfield & (1 << i) == 0)
                                            .filter(|i| { let id = g.base_id.wrapping_add(*i); acked_ids.contains(&id) && sent_nonce.contains_key(&id) && (0..=*i).all(|j| in_log(g.base_id.wrapping_add(j))) })
                                            .collect();
                                        if !cands.is_empty() {
                                            let i = *ri.pick(&cands);
                                            g.bitfield |= 1 << i;
                                            g.nonce ^= sent_nonce[&g.base_id.wrapping_add(i)];
                                            changed = true;
                                        }
                                    }
                                    if changed {
                                        handed = uv::Frame::AckFrame(a2).write().to_vec();
                                        injected_total += 1;
                                        tr.line(json!({"ev": "Inject", "twin": 1, "k": k, "kind": "merged-repeat", "len": handed.len()}));
                                    }
                                }
                            }
                            // what the sender will accept of the genuine frame: groups whose whole span is in its frame log
                            // (the nonce is genuine); only those ids count as acknowledged from now on
                            if let Some(hc) = p.ep[0].hc.as_ref() {
                                let sn = hc.verif_snapshot();
                                let in_log = |id: u32| id.wrapping_sub(sn.f_log_base) < sn.f_next.wrapping_sub(sn.f_log_base);
                                for g in a.frame_acks.iter() {
                                    let size = 32 - g.bitfield.leading_zeros();
                                    if size > 0 && (0..size).all(|j| in_log(g.base_id.wrapping_add(j))) {
                                        for i in 0..size {
                                            if g.bitfield & (1 << i) != 0 {
                                                acked_ids.insert(g.base_id.wrapping_add(i));
                                            }
                                        }
                                    }
                                }
                            }
                        }
                    }
                    p.handle_bytes(&mut null, e, &handed, json!({}));
                }
                // twin 1: extra acknowledgement frames for the sender
                if twin == 1 && e == 0 && !acks_seen.is_empty() && ri.chance(25, 100) && std::env::var("UVH_TWIN_NOINJECT").is_err() {
                    let n = ri.range(1, 3);
                    for _ in 0..n {
                        let base = ri.pick(&acks_seen).clone();
                        // (a call that panicked is data: the endpoint is gone, the run ends below with a Ret line)
                        let s = match p.ep[0].hc.as_ref() { Some(hc) => hc.verif_snapshot(), None => break };
                        let kind = (ri.below(4) + inj_kind_bias) % 4;
                        let bytes: Option<Vec<u8>> = match kind {
                            0 => Some(base),                                   // replay of a genuine ack frame (any age)
                            1 => Some(acks_seen.last().unwrap().clone()),      // immediate duplicate of the latest one
                            2 => {
                                // genuine frame with the nonce of one claiming group inverted
                                match uv::Frame::read(&base) {
                                    Some(uv::Frame::AckFrame(mut a)) => {
                                        let idxs: Vec<usize> = a.frame_acks.iter().enumerate().filter(|(_, g)| g.bitfield != 0).map(|(i, _)| i).collect();
                                        if idxs.is_empty() { None } else {
                                            let i = *ri.pick(&idxs);
                                            a.frame_acks[i].nonce = !a.frame_acks[i].nonce;
                                            // keep only that group, with the current window bases, so that nothing genuine rides along
                                            let g = a.frame_acks[i].clone();
                                            Some(uv::Frame::AckFrame(uv::AckFrame { frame_window_base_id: s.f_win_base, packet_window_base_id: s.tx_base, frame_acks: vec![g] }).write().to_vec())
                                        }
                                    }
                                    _ => None,
                                }
                            }
                            _ => {
                                // groups for frames the sender does not know (beyond next, or before its log)
                                let off = *ri.pick(&[0u32, 1, 5, 1000]);
                                let b = if ri.chance(1, 2) { s.f_next.wrapping_add(off) } else { s.f_log_base.wrapping_sub(1 + off) };
                                Some(uv::Frame::AckFrame(uv::AckFrame { frame_window_base_id: s.f_win_base, packet_window_base_id: s.tx_base,
                                    frame_acks: vec![uv::AckGroup { base_id: b, bitfield: *ri.pick(&[1u32, 3, 0xFFFFFFFF]), nonce: ri.chance(1, 2) }] }).write().to_vec())
                            }
                        };
                        if let Some(b) = bytes.filter(|_| !noinject) {
                            injected_total += 1;
                            let kname = ["replay", "duplicate", "wrong-nonce", "unknown-frames"][kind as usize];
                            tr.line(json!({"ev": "Inject", "twin": 1, "k": k, "kind": kname, "len": b.len()}));
                            p.handle_bytes(&mut null, 0, &b, json!({}));
                        }
                    }
                }
                p.step(&mut null, e, false);
                let got = p.receive(&mut null, e);
                if e == 1 {
                    delivered += got.len() as u64;
                }
            }
            if p.dead {
                tr.line(json!({"ev": "Ret", "ep": "twin", "call": "any", "outcome": "panic", "msg": "endpoint died", "file": "", "t": 0, "twin": twin, "k": k}));
                break;
            }
            let hc = p.ep[0].hc.as_ref().unwrap();
            let s = hc.verif_snapshot();
            tr.line(json!({"ev": "Obs", "twin": twin, "k": k, "frames": nframes, "bytes": nbytes, "hash": (h & 0x3FFFFFFF) as i64,
                "rtt_us": hc.rtt_s().map(|v| (v * 1e6).round().min(2e9) as i64).unwrap_or(-1), "rate": s.rate.send_rate.min(2_000_000_000),
                "pending": hc.is_send_pending(), "bufsize": hc.send_buffer_size().min(2_000_000_000), "delivered": delivered.min(2_000_000_000)}));
        }
    }
    tr.line(json!({"ev": "End", "run": run, "dead": false, "calls": injected_total}));
    injected_total
}
