//! Conformance replay of the acknowledgement half of Emit.tla: a fresh real HalfConnection is made to owe
//! n ack groups (n empty data frames whose ids are 32 apart, so that each starts a group of its own) and,
//! if `dud`, a reply to a sync frame; it is flushed once in logical mode with the given credit and the
//! number of groups in each ack frame it emits is compared with the model's.
//! Input: one JSON object per line {"n", "credit", "dud", "frames": [groups per frame..], "stop"}.

use crate::common::*;
use crate::hc::*;
use serde_json::{json, Value};
use uflow::verif as uv;
use uflow::verif::Serialize;

pub fn run_ack_emit_case(tr: &mut Trace, quiet: &mut Trace, run: u64, spec: &Value) -> (u64, u64) {
    let n = spec["n"].as_u64().unwrap_or(0);
    let credit = spec["credit"].as_i64().unwrap_or(0);
    let dud = spec["dud"].as_bool().unwrap_or(false);
    let cfg = PairCfg { pw: 4096, fw: 4096, pbase: [5, 0], fbase: [7, 0], rx_alloc: [1_000_000, 1_000_000], bw: [2_000_000, 2_000_000], keepalive: None };
    crate::hc_random::uflow_rand_seed(run);
    let mut p = Pair::new(cfg);
    p.log_probe = false;
    for _ in 0..n {
        let s = p.ep[1].hc.as_ref().unwrap().verif_snapshot();
        let f = uv::Frame::DataFrame(uv::DataFrame { sequence_id: s.rf_base.wrapping_add(31), nonce: false, datagrams: vec![] });
        p.handle_bytes(quiet, 1, &f.write(), json!({}));
    }
    if dud {
        let f = uv::Frame::SyncFrame(uv::SyncFrame { next_frame_id: None, next_packet_id: None });
        p.handle_bytes(quiet, 1, &f.write(), json!({}));
    }
    let owed = p.ep[1].hc.as_ref().unwrap().verif_snapshot().ackq_len as u64;
    let frames = p.flush(quiet, 1, Some((credit as isize, 1, 1000, 1000)));
    let mut got: Vec<Value> = Vec::new();
    for (_, bytes) in frames.iter() {
        match uv::Frame::read(bytes) {
            Some(uv::Frame::AckFrame(f)) => {
                if bytes.len() != 15 + 9 * f.frame_acks.len() { got.push(json!(-2)); } else { got.push(json!(f.frame_acks.len())); }
            }
            _ => got.push(json!(-1)),
        }
    }
    let got = Value::Array(got);
    let same = !p.dead && owed == n && got == spec["frames"];
    if same {
        tr.line(json!({"ev": "Conf", "k": run, "op": "ackflush", "same": true}));
    } else {
        tr.line(json!({"ev": "Conf", "k": run, "op": "ackflush", "same": false, "case": {"n": n, "credit": credit, "dud": dud}, "owed": owed, "want": spec["frames"], "got": got, "dead": p.dead}));
    }
    (1, if same { 0 } else { 1 })
}
