//! Conformance replay of Emit.tla: each case is a list of packets (Unreliable, one channel), a flush
//! credit and a frame window; the packets are submitted to a fresh real HalfConnection, which is
//! flushed once in logical mode with that credit, and the frames it emits (length, datagrams by
//! packet and fragment, in order) are compared with what the model computed.
//! Input: one JSON object per line {"packets": [len..], "credit": c, "room": w, "frames": [{"len", "dgs": [index..]}], "stop": ..}.

use crate::common::*;
use crate::hc::*;
use serde_json::{json, Value};
use uflow::verif as uv;
use uflow::verif::Serialize;
use uflow::SendMode;

pub fn run_emit_case(tr: &mut Trace, quiet: &mut Trace, run: u64, spec: &Value) -> (u64, u64) {
    let room = spec["room"].as_u64().unwrap_or(8) as u32;
    let credit = spec["credit"].as_i64().unwrap_or(0);
    let cfg = PairCfg { pw: 4096, fw: room.max(1), pbase: [5, 0], fbase: [7, 0], rx_alloc: [1_000_000, 1_000_000], bw: [2_000_000, 2_000_000], keepalive: None };
    crate::hc_random::uflow_rand_seed(run);
    let mut p = Pair::new(cfg);
    p.log_probe = false;
    let empty = Vec::new();
    let packets = spec["packets"].as_array().unwrap_or(&empty);
    // datagram index (1-based, in submission order) -> (uid, fragment)
    let mut index: Vec<(i64, u64)> = Vec::new();
    for pk in packets.iter() {
        let len = pk.as_u64().unwrap_or(0) as usize;
        let uid = p.send(quiet, 0, 0, SendMode::Unreliable, len) as i64;
        let nfrag = if len == 0 { 1 } else { (len + 1447) / 1448 };
        for f in 0..nfrag {
            index.push((uid, f as u64));
        }
    }
    let frames = p.flush(quiet, 0, Some((credit as isize, 1, 1000, 1000)));
    let mut got: Vec<Value> = Vec::new();
    for (_, bytes) in frames.iter() {
        match uv::Frame::read(bytes) {
            Some(uv::Frame::DataFrame(f)) => {
                let dgs: Vec<Value> = f.datagrams.iter().map(|d| {
                    let uid = p.ep[0].pid_uid.get(&d.sequence_id).map(|u| *u as i64).unwrap_or(-1);
                    let pos = index.iter().position(|(u, fr)| *u == uid && *fr == d.fragment_id as u64).map(|i| i as i64 + 1).unwrap_or(-1);
                    json!(pos)
                }).collect();
                got.push(json!({"len": bytes.len(), "dgs": dgs}));
            }
            _ => got.push(json!({"len": bytes.len(), "dgs": "not-a-data-frame"})),
        }
    }
    let got = Value::Array(got);
    let same = !p.dead && got == spec["frames"];
    if same {
        tr.line(json!({"ev": "Conf", "k": run, "op": "flush", "same": true}));
    } else {
        tr.line(json!({"ev": "Conf", "k": run, "op": "flush", "same": false, "case": {"packets": spec["packets"], "credit": credit, "room": room}, "want": spec["frames"], "got": got, "dead": p.dead}));
    }
    (1, if same { 0 } else { 1 })
}
