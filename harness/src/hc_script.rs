//! Scripted half-connection runs: one JSON object per line, {"cfg": {...}, "ops": [...]}.
//! Used to replay TLC-generated schedules (logical mode: the harness supplies time, RTT, credit and
//! nonce bits) and hand-written natural-mode scenarios.
//!
//! ops (ep is 0 for "a", 1 for "b"):
//!   {"op":"send","ep":0,"ch":0,"mode":"R","len":100}
//!   {"op":"tick","ms":20}
//!   {"op":"step","ep":0}                        natural mode step()
//!   {"op":"flush","ep":0,"fates":[...]}          natural mode flush(); fates per emitted frame:
//!                                               "d" deliver when asked, "x" drop, "2" duplicate
//!   {"op":"lflush","ep":0,"credit":0,"now":10,"rtt":100,"rto":400,"nonces":[true],"fates":[...]}   logical mode
//!   {"op":"bump","ep":0}                        logical mode: advance the flush id (what step() does)
//!   {"op":"deliver","ep":1,"k":0}                hand the k-th frame in flight toward ep to it
//!   {"op":"deliver_all","ep":1}
//!   {"op":"drop","ep":1,"k":0}                   lose the k-th frame in flight toward ep
//!   {"op":"dup","ep":1,"k":0}                    duplicate it (a copy is appended to the flight list)
//!   {"op":"receive","ep":1}
//!   {"op":"visit","ep":0}                        flush, deliver everything in flight toward ep, step, receive
//!   {"op":"quiesce","max_ms":600000,"dt":20}     fair tail until idle, then Quiesced lines

use crate::common::*;
use crate::hc::*;
use serde_json::{json, Value};

fn cfg_from(v: &Value) -> PairCfg {
    let g = |k: &str, d: u64| v.get(k).and_then(|x| x.as_u64()).unwrap_or(d);
    PairCfg {
        pw: g("pw", 4096) as u32,
        fw: g("fw", 4096) as u32,
        pbase: [g("pbase_a", 0) as u32, g("pbase_b", 0) as u32],
        fbase: [g("fbase_a", 0) as u32, g("fbase_b", 0) as u32],
        rx_alloc: [g("rx_alloc_a", 1000000) as usize, g("rx_alloc_b", 1000000) as usize],
        bw: [g("bw_a", 2000000) as u32, g("bw_b", 2000000) as u32],
        keepalive: v.get("keepalive").and_then(|x| x.as_u64()),
    }
}

pub fn run_script(tr: &mut Trace, run: u64, spec: &Value) -> (u64, bool) {
    let cfgv = spec.get("cfg").cloned().unwrap_or(json!({}));
    crate::hc_random::uflow_rand_seed(cfgv.get("seed").and_then(|x| x.as_u64()).unwrap_or(run));
    let cfg = cfg_from(&cfgv);
    let mut p = Pair::new(cfg);
    p.log_snap = cfgv.get("snap").and_then(|x| x.as_bool()).unwrap_or(false);
    p.log_probe = cfgv.get("probe").and_then(|x| x.as_bool()).unwrap_or(true);
    let log_steps = cfgv.get("log_steps").and_then(|x| x.as_bool()).unwrap_or(true);
    let ideal = cfgv.get("ideal").and_then(|x| x.as_bool()).unwrap_or(false);
    tr.line(json!({"ev": "Reset", "run": run, "seed": 0, "driver": "hc-script", "profile": cfgv.get("name").cloned().unwrap_or(json!("script")),
        "ideal": ideal, "cfg": p.cfg_json(), "ceil_a": p.cfg.bw[0], "ceil_b": p.cfg.bw[1], "tag": spec.get("tag").cloned().unwrap_or(json!(""))}));
    let empty = Vec::new();
    let ops = spec.get("ops").and_then(|x| x.as_array()).unwrap_or(&empty);
    let launch = |p: &mut Pair, tr: &mut Trace, e: usize, frames: Vec<(u64, Box<[u8]>)>, fates: Option<&Vec<Value>>| {
        for (k, (idx, bytes)) in frames.into_iter().enumerate() {
            let fate = fates.and_then(|f| f.get(k)).and_then(|x| x.as_str()).unwrap_or("d");
            tr.line(json!({"ev": "Net", "dir": e, "idx": idx, "fate": match fate { "x" => "drop", "2" => "dup", _ => "deliver" }}));
            match fate {
                "x" => {}
                "2" => {
                    p.launch(e, idx, bytes.clone(), 0);
                    p.launch(e, idx, bytes, 0);
                }
                _ => p.launch(e, idx, bytes, 0),
            }
        }
    };
    for op in ops.iter() {
        if p.dead {
            break;
        }
        let name = op.get("op").and_then(|x| x.as_str()).unwrap_or("");
        let e = op.get("ep").and_then(|x| x.as_u64()).unwrap_or(0) as usize;
        match name {
            "send" => {
                let mode = mode_from(op.get("mode").and_then(|x| x.as_str()).unwrap_or("R"));
                p.send(tr, e, op.get("ch").and_then(|x| x.as_u64()).unwrap_or(0) as u8, mode, op.get("len").and_then(|x| x.as_u64()).unwrap_or(10) as usize);
            }
            "tick" => advance_ms(op.get("ms").and_then(|x| x.as_u64()).unwrap_or(1)),
            "step" => p.step(tr, e, log_steps),
            "bump" => {
                if let Some(hc) = p.ep[e].hc.as_mut() {
                    hc.verif_bump_flush_id();
                }
                p.ep[e].steps += 1;
                tr.line(json!({"ev": "Step", "ep": p.ep[e].name, "t": p.t_ms(), "sn": p.ep[e].steps, "rtt_us": -1, "rate": 0, "credit": 0, "rmode": 0, "logical": true}));
            }
            "flush" => {
                let frames = p.flush(tr, e, None);
                launch(&mut p, tr, e, frames, op.get("fates").and_then(|x| x.as_array()));
            }
            "lflush" => {
                let g = |k: &str, d: i64| op.get(k).and_then(|x| x.as_i64()).unwrap_or(d);
                if let Some(ns) = op.get("nonces").and_then(|x| x.as_array()) {
                    for n in ns.iter() {
                        rand::verif_force_bool(n.as_bool().unwrap_or(false));
                    }
                }
                let frames = p.flush(tr, e, Some((g("credit", 1 << 30) as isize, g("now", 0) as u64, g("rtt", 100) as u64, g("rto", 400) as u64)));
                launch(&mut p, tr, e, frames, op.get("fates").and_then(|x| x.as_array()));
            }
            "deliver" | "drop" | "dup" => {
                let k = op.get("k").and_then(|x| x.as_u64()).unwrap_or(0) as usize;
                let dir = 1 - e;
                let pos: Vec<usize> = p.net.iter().enumerate().filter(|(_, f)| f.dir == dir).map(|(i, _)| i).collect();
                if k < pos.len() {
                    match name {
                        "deliver" => {
                            let f = p.net.remove(pos[k]);
                            p.handle_bytes(tr, e, &f.bytes, json!({"idx": f.idx}));
                        }
                        "drop" => {
                            let f = p.net.remove(pos[k]);
                            tr.line(json!({"ev": "Net", "dir": dir, "idx": f.idx, "fate": "drop-late"}));
                        }
                        _ => {
                            let (idx, bytes) = (p.net[pos[k]].idx, p.net[pos[k]].bytes.clone());
                            p.launch(dir, idx, bytes, 0);
                        }
                    }
                }
            }
            "deliver_all" => {
                p.deliver_due(tr, e);
            }
            "receive" => {
                p.receive(tr, e);
            }
            "visit" => {
                let frames = p.flush(tr, e, None);
                launch(&mut p, tr, e, frames, op.get("fates").and_then(|x| x.as_array()));
                p.deliver_due(tr, e);
                p.step(tr, e, log_steps);
                p.receive(tr, e);
            }
            "quiesce" => {
                let max_ms = op.get("max_ms").and_then(|x| x.as_u64()).unwrap_or(600_000);
                let dt = op.get("dt").and_then(|x| x.as_u64()).unwrap_or(20);
                let start = p.t_ms();
                let mut quiet = 0;
                let mut reached = false;
                p.log_probe = false;
                while !p.dead && p.t_ms() - start < max_ms {
                    advance_ms(dt);
                    for e in 0..2 {
                        let frames = p.flush(tr, e, None);
                        launch(&mut p, tr, e, frames, None);
                        p.deliver_due(tr, e);
                        p.step(tr, e, false);
                        p.receive(tr, e);
                    }
                    if !p.ep[0].last_pending && p.ep[0].last_bufsize == 0 && !p.ep[1].last_pending && p.ep[1].last_bufsize == 0 {
                        quiet += 1;
                        if quiet >= 5 {
                            reached = true;
                            break;
                        }
                    } else {
                        quiet = 0;
                    }
                }
                p.log_probe = true;
                for e in 0..2 {
                    if p.dead {
                        break;
                    }
                    p.probe(tr, e);
                    let s = p.ep[e].hc.as_ref().unwrap().verif_snapshot();
                    tr.line(json!({"ev": "Quiesced", "ep": p.ep[e].name, "pending": p.ep[e].last_pending, "bufsize": p.ep[e].last_bufsize.min(2_000_000_000),
                        "t": p.t_ms(), "tail_ms": p.t_ms() - start, "horizon_ms": max_ms.min(2_000_000_000), "reached": reached, "cut": false,
                        "rate": s.rate.send_rate, "rmode": s.rate.mode, "credit": s.flush_alloc.clamp(-2_000_000_000, 2_000_000_000)}));
                }
            }
            _ => {
                eprintln!("TOOL-ERROR: unknown op {}", name);
                std::process::exit(2);
            }
        }
    }
    tr.line(json!({"ev": "End", "run": run, "dead": p.dead, "calls": p.calls}));
    (p.calls, p.dead)
}
