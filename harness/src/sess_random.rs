//! Seeded session-level scenarios (real Client / Server over loopback relays).

use crate::common::*;
use crate::sess::*;
use serde_json::json;
use uflow::verif as uv;
use uflow::verif::Serialize;
use uflow::SendMode;
use uflow::{server, EndpointConfig};

#[derive(Clone, Copy, PartialEq)]
pub enum SProfile {
    Handshake,
    Life,
    Timeout,
    Amp,
    Idle,
    Flush,
    Capacity, // a server at its limits: connections end by disconnect, drop and time-out (a peer vanishes for good) while others keep asking
}

pub fn sprofile_from(s: &str) -> SProfile {
    match s {
        "life" => SProfile::Life,
        "timeout" => SProfile::Timeout,
        "amp" => SProfile::Amp,
        "idle" => SProfile::Idle,
        "flush" => SProfile::Flush,
        "capacity" => SProfile::Capacity,
        _ => SProfile::Handshake,
    }
}

fn ep_cfg(r: &mut Rng, prof: SProfile) -> EndpointConfig {
    let mut c = EndpointConfig::default();
    c.active_timeout_ms = match prof {
        SProfile::Idle => *r.pick(&[8000u64, 12000, 20000, 60000]),
        SProfile::Timeout => *r.pick(&[1000u64, 3000, 5000, 20000, 60000]),
        SProfile::Flush => 20000,
        SProfile::Capacity => *r.pick(&[1000u64, 3000, 5000]),
        _ => *r.pick(&[3000u64, 20000, 20000]),
    };
    c.keepalive = r.chance(2, 3) || prof == SProfile::Idle;
    c.keepalive_interval_ms = if prof == SProfile::Idle { *r.pick(&[500u64, 1000, 2000]) } else { *r.pick(&[500u64, 2000, 5000]) };
    c.max_send_rate = *r.pick(&[20_000usize, 200_000, 2_000_000]);
    c.max_receive_rate = *r.pick(&[20_000usize, 200_000, 2_000_000]);
    if r.chance(1, 6) && prof != SProfile::Idle && prof != SProfile::Flush && prof != SProfile::Capacity {
        // occasionally incompatible: packet size larger than the other side's typical allocation
        c.max_packet_size = *r.pick(&[500usize, 3000, 2_000_000]);
        c.max_receive_alloc = *r.pick(&[400usize, 3000, 1_000_000]);
    } else if prof == SProfile::Flush {
        // always compatible: the scenario is about the end of an established connection
        c.max_packet_size = *r.pick(&[30_000usize, 100_000]);
        c.max_receive_alloc = 1_000_000;
    } else {
        c.max_packet_size = *r.pick(&[3000usize, 100_000, 1_000_000]);
        c.max_receive_alloc = *r.pick(&[100_000usize, 1_000_000]).max(&c.max_packet_size);
    }
    c
}

fn syn_bytes(version: u8, nonce: u32, rate: u32, psize: u32, alloc: u32) -> Vec<u8> {
    uv::Frame::HandshakeSynFrame(uv::HandshakeSynFrame { version, nonce, max_receive_rate: rate, max_packet_size: psize, max_receive_alloc: alloc }).write().to_vec()
}

pub struct SessStats {
    pub wire: u64,
    pub dead: bool,
}

pub fn run_sess(tr: &mut Trace, run: u64, seed: u64, prof: SProfile) -> SessStats {
    let mut r = Rng::new(seed);
    crate::hc_random::uflow_rand_seed(seed);
    let nclients = match prof {
        SProfile::Idle => r.range(1, 2) as usize,
        SProfile::Amp => r.range(0, 1) as usize,
        SProfile::Timeout => r.range(1, 2) as usize,
        SProfile::Flush => r.range(1, 2) as usize,
        SProfile::Capacity => r.range(3, 4) as usize,
        _ => r.range(1, 4) as usize,
    };
    // (capacity profile: always two clients more than the server admits - one will vanish, one keeps asking)
    let max_active = if prof == SProfile::Flush { 32 } else if prof == SProfile::Capacity { nclients - 2 } else { *r.pick(&[1usize, 1, 2, 3, 32]) };
    let max_total = if prof == SProfile::Capacity { *r.pick(&[max_active + 1, 4096, 4096]) } else { *r.pick(&[1usize, 2, 4, 4096]).max(&max_active) };
    let scfg_ep = ep_cfg(&mut r, prof);
    let scfg = server::Config { max_total_connections: max_total, max_active_connections: max_active, enable_handshake_errors: r.chance(1, 2), endpoint_config: scfg_ep.clone() };
    let herr = scfg.enable_handshake_errors;
    let mut s = Sess::new(scfg);
    let mut ccfgs = Vec::new();
    for _ in 0..nclients {
        let c = ep_cfg(&mut r, prof);
        ccfgs.push(json!({"timeout": c.active_timeout_ms, "keepalive": if c.keepalive { c.keepalive_interval_ms as i64 } else { -1 },
            "max_packet_size": c.max_packet_size.min(2_000_000_000), "max_receive_alloc": c.max_receive_alloc.min(2_000_000_000)}));
        s.add_slot(c);
    }
    let nraw = if prof == SProfile::Amp { r.range(1, 3) as usize } else if prof != SProfile::Flush && r.chance(1, 4) { 1 } else { 0 };
    for _ in 0..nraw {
        s.add_raw();
    }
    let silent = prof == SProfile::Idle && r.chance(2, 3);
    // who submits packets: 0 both, 1 clients only, 2 server only (a pure receiver only ever sees ack / sync frames)
    let pattern = if prof == SProfile::Timeout || prof == SProfile::Life { r.below(3) } else { 0 }; // the applications never submit anything
    let lossfree = (r.chance(1, 3) && prof != SProfile::Amp && prof != SProfile::Flush && prof != SProfile::Capacity) || (prof == SProfile::Flush && r.chance(1, 6)) || prof == SProfile::Idle;
    let p_drop: u64 = if lossfree { 0 } else if prof == SProfile::Flush { *r.pick(&[10u64, 20, 40]) } else if prof == SProfile::Capacity { *r.pick(&[0u64, 0, 5]) } else { *r.pick(&[0u64, 10, 30, 60]) };
    let p_dup: u64 = if lossfree { 0 } else { *r.pick(&[0u64, 10, 30]) };
    let p_forge: u64 = if lossfree || prof == SProfile::Flush { 0 } else { match prof { SProfile::Handshake => *r.pick(&[0u64, 10, 30]), SProfile::Amp => 80, _ => *r.pick(&[0u64, 0, 5]) } };
    let p_replay: u64 = if lossfree || prof == SProfile::Flush { 0 } else { *r.pick(&[0u64, 5, 20]) };
    let latency = if prof == SProfile::Idle || prof == SProfile::Flush { *r.pick(&[0u64, 10, 100]) } else { *r.pick(&[0u64, 0, 10, 100, 700]) };
    let jitter = if lossfree { 0 } else if prof == SProfile::Flush { *r.pick(&[0u64, 0, 50]) } else { *r.pick(&[0u64, 0, 50, 3000]) };
    let cadence = if prof == SProfile::Idle || prof == SProfile::Flush || prof == SProfile::Capacity { *r.pick(&[10u64, 20, 100]) } else { *r.pick(&[10u64, 20, 100, 500, 1000]) };
    // steady: loss-free, evenly and frequently stepped (the premise of the keep-alive clause of C10)
    // and every time-out is well above the effective keep-alive period max(interval, 2 s, RTO)
    let steady = prof == SProfile::Idle;
    let reconnecting = ((prof == SProfile::Life || prof == SProfile::Handshake) && r.chance(1, 2)) || prof == SProfile::Capacity;
    let rounds = match prof { SProfile::Capacity => r.range(150, 400), SProfile::Timeout => r.range(50, 400), SProfile::Idle => r.range(3000, 40000), SProfile::Flush => r.range(200, 450), _ => r.range(30, 250) };

    tr.line(json!({"ev": "Reset", "run": run, "seed": seed as i64 & 0x3FFFFFFF, "driver": "sess-random", "profile": match prof {
        SProfile::Handshake => "handshake", SProfile::Life => "life", SProfile::Timeout => "timeout", SProfile::Amp => "amp", SProfile::Idle => "idle", SProfile::Flush => "flush", SProfile::Capacity => "capacity" },
        "max_active": max_active.min(100000), "max_total": max_total.min(100000), "herr": herr, "nclients": nclients, "nraw": nraw, "lossfree": lossfree, "steady": steady,
        "server": {"timeout": scfg_ep.active_timeout_ms, "keepalive": if scfg_ep.keepalive { scfg_ep.keepalive_interval_ms as i64 } else { -1 },
                   "max_packet_size": scfg_ep.max_packet_size.min(2_000_000_000), "max_receive_alloc": scfg_ep.max_receive_alloc.min(2_000_000_000),
                   "max_send_rate": scfg_ep.max_send_rate.min(2_000_000_000), "max_receive_rate": scfg_ep.max_receive_rate.min(2_000_000_000)},
        "clients": ccfgs, "latency": latency, "cadence": cadence}));

    // schedule of connect times
    let mut connect_at: Vec<u64> = (0..nclients).map(|_| if r.chance(1, 2) { 0 } else if prof == SProfile::Flush { r.below(6) } else { r.below(rounds / 2 + 1) }).collect();
    let mut blackout: Vec<(u64, u64, usize)> = Vec::new(); // (t0, t1, slot)
    if !lossfree && r.chance(1, 2) && nclients > 0 && prof != SProfile::Flush {
        let t0 = r.below(rounds * cadence);
        blackout.push((t0, t0 + *r.pick(&[2500u64, 8000, 25000, 60000]), r.below(nclients as u64) as usize));
    }
    // capacity profile: one peer that is connected at some point of the first half vanishes for good (chosen then): its
    // connection can only end by time-out, while the other clients keep asking for the place it holds
    let mut vanish_at: u64 = if prof == SProfile::Capacity { r.range(5, rounds / 3) } else { u64::MAX };
    let mut vanish_stage = 0;
    // flush profile: per connection one side is the closer; after a warm-up with traffic in both directions it submits a
    // batch of Reliable / Persistent packets and calls disconnect() once; it submits nothing afterwards, and the other
    // side does not disconnect (in a quarter of the runs it does, later)
    let flush_at: Vec<u64> = (0..nclients).map(|_| r.range(8, 50)).collect();
    let closer_is_server: Vec<bool> = (0..nclients).map(|_| r.chance(1, 2)).collect();
    let peer_closes_at: Vec<u64> = (0..nclients).map(|_| if r.chance(1, 4) { r.range(4, rounds) } else { u64::MAX }).collect();
    // crossing disconnects (a fifth of the flush runs, per connection): both applications disconnect in the same round and
    // the client's frames are lost for the next few seconds (its DISCONNECT and its DISCONNECT-ACK), the server's get through
    let crossing: Vec<bool> = (0..nclients).map(|_| prof == SProfile::Flush && r.chance(1, 5)).collect();
    let mut oneway: Vec<(u64, u64, usize, bool)> = Vec::new(); // (t0, t1, slot, frames towards the server)
    // kick (a quarter of the handshake / life / timeout runs): an application that ends a connection as soon as it learns of
    // it (ban list, failed log-in) - while timers of the handshake are still queued - and whose peer then often cannot be
    // reached, so that the whole retry schedule of the disconnect runs.  Its own generator: other choices are unaffected.
    let mut kick_rng = Rng::new(seed ^ 0x6B1C_4B1C);
    let kick = matches!(prof, SProfile::Handshake | SProfile::Life | SProfile::Timeout) && kick_rng.chance(1, 4);
    let mut kicked: Vec<bool> = vec![false; nclients];
    let mut flushed: Vec<bool> = vec![false; nclients];
    let mut archive: Vec<(usize, bool, Vec<u8>)> = Vec::new(); // handshake frames seen (slot, to_server, bytes)
    let mut assigned = 0usize; // held[..assigned] already have a fate

    for round in 0..rounds {
        if s.dead {
            break;
        }
        let dt = if steady { cadence } else { match r.below(12) { 0 => 0, 1 => cadence * 5, 2 if prof == SProfile::Timeout => *r.pick(&[2000u64, 10000, 30000]), _ => cadence } };
        advance_ms(dt);
        let now = s.t_ms();

        // deliver what is due
        let mut keep = Vec::new();
        let held = std::mem::take(&mut s.held);
        assigned = 0;
        for h in held.into_iter() {
            if h.due <= now {
                s.forward(tr, &h, "deliver");
            } else {
                keep.push(h);
            }
        }
        s.held = keep;
        assigned = s.held.len();

        if round >= vanish_at {
            let up: Vec<usize> = (0..nclients).filter(|&i| s.slots[i].client.as_ref().map_or(false, |c| c.is_active())
                && s.server.as_mut().unwrap().client(&s.slots[i].relay_addr).map_or(false, |rc| rc.borrow().is_active())).collect();
            if up.is_empty() {
                vanish_at = round + 2;
            } else if vanish_stage == 0 && r.chance(3, 4) {
                // first an ordinary end: one connected client disconnects (the server keeps its entry for the linger,
                // with a timer queued for it), the place goes to whoever asks next ...
                let i = *r.pick(&up);
                s.app_disconnect(tr, false, i, r.chance(1, 2));
                vanish_stage = 1;
                vanish_at = round + r.range(2, 12);
            } else {
                // ... and then a connected peer vanishes for good
                blackout.push((now, u64::MAX / 4, *r.pick(&up)));
                vanish_at = u64::MAX;
            }
        }
        // application actions
        for i in 0..nclients {
            if s.slots[i].client.is_none() && connect_at[i] <= round {
                s.connect(tr, i);
                connect_at[i] = u64::MAX;
            }
            // a client whose connection has ended connects again from the same address (a new Client object behind the
            // same relay): soon afterwards - while the server still lingers in Closed for that address - or much later
            let (max_rec, p_rec) = if prof == SProfile::Capacity { (10, 4) } else { (2, 12) }; // (refused clients keep asking)
            if reconnecting && s.slots[i].client.is_some() && s.slots[i].finished && s.slots[i].reconnects < max_rec && r.chance(1, p_rec) {
                s.slots[i].reconnects += 1;
                s.connect(tr, i);
            }
        }
        s.pump(tr);
        for i in 0..nclients {
            if s.slots[i].client.is_none() {
                continue;
            }
            // (flush profile: light traffic, so that the closer's queue can drain within the run)
            if prof != SProfile::Amp && !silent && r.chance(match prof { SProfile::Idle => 1, SProfile::Flush => 8, _ => 30 }, if prof == SProfile::Idle { 500 } else { 100 }) {
                let n = r.range(1, 3);
                for _ in 0..n {
                    let from_server = match pattern { 1 => false, 2 => true, _ => r.chance(1, 2) };
                    if prof == SProfile::Flush && flushed[i] && from_server == closer_is_server[i] {
                        continue;
                    }
                    // a sender may submit packets up to its OWN max_packet_size (a successful handshake guarantees that the
                    // peer's receive allocation covers it); the peer's max_packet_size says nothing about this direction
                    let maxp = (if from_server { scfg_ep.max_packet_size } else { s.slots[i].cfg.max_packet_size }).min(20000);
                    let len = (if prof == SProfile::Flush { *r.pick(&[4usize, 50, 1000, 1449, 3000]) } else { *r.pick(&[4usize, 50, 1000, 1448, 1449, 5000, 20000]) }).min(maxp);
                    let mode = *r.pick(&[SendMode::TimeSensitive, SendMode::Unreliable, SendMode::Persistent, SendMode::Reliable, SendMode::Reliable]);
                    s.app_send(tr, from_server, i, r.below(4) as usize, mode, len);
                }
            }
            if prof == SProfile::Flush && !flushed[i] && crossing[i] && round >= flush_at[i] && s.slots[i].client.as_ref().map_or(false, |c| c.is_active()) {
                flushed[i] = true;
                let t0 = s.t_ms();
                oneway.push((t0, t0 + *r.pick(&[2500u64, 4500, 7000]), i, true));
                let first_server = r.chance(1, 2);
                s.app_disconnect(tr, first_server, i, true);
                s.app_disconnect(tr, !first_server, i, true);
            }
            if prof == SProfile::Flush && !flushed[i] && round >= flush_at[i] && s.slots[i].client.as_ref().map_or(false, |c| c.is_active()) {
                flushed[i] = true;
                let from_server = closer_is_server[i];
                let n = r.range(1, 5);
                for _ in 0..n {
                    let maxp = if from_server { scfg_ep.max_packet_size } else { s.slots[i].cfg.max_packet_size };
                    // (empty and tiny packets too: they occupy a packet id and a fragment but no bytes of the send buffer)
                    let len = (*r.pick(&[1449usize, 3000, 6000, 20000, 50, 0, 0, 1])).min(maxp);
                    s.app_send(tr, from_server, i, r.below(3) as usize, if len < 4 || r.chance(3, 4) { SendMode::Reliable } else { SendMode::Persistent }, len);
                }
                s.app_disconnect(tr, from_server, i, false);
            }
            if prof == SProfile::Flush && round == peer_closes_at[i] {
                s.app_disconnect(tr, !closer_is_server[i], i, r.chance(1, 3));
            }
            if kick && !kicked[i] {
                let addr = s.slots[i].relay_addr;
                let server_side = kick_rng.chance(2, 3);
                let up = if server_side { s.server.as_mut().unwrap().client(&addr).map_or(false, |rc| rc.borrow().is_active()) }
                         else { s.slots[i].client.as_ref().map_or(false, |c| c.is_active()) };
                if up && kick_rng.chance(2, 3) {
                    kicked[i] = true;
                    s.app_disconnect(tr, server_side, i, kick_rng.chance(2, 3));
                    if !lossfree && kick_rng.chance(2, 3) {
                        // the peer is unreachable from now on (both directions, or only the answers)
                        let t0 = s.t_ms();
                        let len = *kick_rng.pick(&[3000u64, 9000, 30000, 60000]);
                        if kick_rng.chance(1, 2) { blackout.push((t0, t0 + len, i)); } else { oneway.push((t0, t0 + len, i, server_side)); }
                    }
                }
            }
            let pd: u64 = match prof { SProfile::Life => 3, SProfile::Handshake => 1, _ => 0 }; // (capacity profile: only its scripted ends)
            if r.chance(pd, 100) {
                s.app_disconnect(tr, r.chance(1, 2), i, r.chance(1, 3));
            }
            if prof != SProfile::Timeout && prof != SProfile::Idle && r.chance(1, if prof == SProfile::Capacity { 1500 } else { 200 }) {
                s.app_drop(tr, i);
            }
            if r.chance(1, 10) {
                s.app_flush(tr, r.chance(1, 2), i);
            }
        }

        // amplification probe: a spoofable address opens a handshake with one full-size SYN and then sends a burst of
        // one kind of small frame; whatever the server answers to each of them adds up (C18)
        if prof == SProfile::Amp && nraw > 0 && r.chance(1, 40) {
            amp_flood(&mut s, tr, &mut r, nraw);
        }
        // forged and replayed frames
        if r.chance(p_forge, 100) {
            forge_something(&mut s, tr, &mut r, nclients, nraw, &archive);
        }
        if r.chance(p_replay, 100) && !archive.is_empty() {
            let (slot, to_server, bytes) = r.pick(&archive).clone();
            s.inject(tr, slot, to_server, bytes);
        }

        // step everybody in random order; assign fates to fresh frames after each step
        let mut order: Vec<usize> = (0..=nclients).collect();
        for k in (1..order.len()).rev() {
            let j = r.below(k as u64 + 1) as usize;
            order.swap(k, j);
        }
        for &who in order.iter() {
            if who == nclients {
                s.step_server(tr);
            } else {
                s.step_client(tr, who);
            }
            // fates for the frames that appeared
            let now = s.t_ms();
            for k in assigned..s.held.len() {
                let (slot, to_server) = (s.held[k].slot, s.held[k].to_server);
                let ty = s.held[k].bytes.first().copied().unwrap_or(255);
                if ty <= 3 && archive.len() < 64 {
                    archive.push((slot, to_server, s.held[k].bytes.clone()));
                }
                let in_black = blackout.iter().any(|(t0, t1, sl)| *sl == slot && now >= *t0 && now < *t1)
                    || oneway.iter().any(|(t0, t1, sl, ts)| *sl == slot && *ts == to_server && now >= *t0 && now < *t1);
                if in_black || r.chance(p_drop, 100) {
                    tr.line(json!({"ev": "Net", "idx": s.held[k].idx, "fate": "drop"}));
                    s.held[k].due = u64::MAX - 1; // marked dropped
                } else {
                    s.held[k].due = now + latency + r.below(jitter + 1);
                    if r.chance(p_dup, 100) {
                        let copy = Held { idx: s.held[k].idx, to_server, slot, bytes: s.held[k].bytes.clone(), due: now + latency + r.below(jitter + 1000) };
                        tr.line(json!({"ev": "Net", "idx": copy.idx, "fate": "dup"}));
                        s.held.push(copy);
                    }
                }
            }
            s.held.retain(|h| h.due != u64::MAX - 1);
            assigned = s.held.len();
            // zero-latency frames go out at once so that a loss-free exchange completes within a step pair
            let mut keep = Vec::new();
            let held = std::mem::take(&mut s.held);
            for h in held.into_iter() {
                if h.due <= now {
                    s.forward(tr, &h, "deliver");
                } else {
                    keep.push(h);
                }
            }
            s.held = keep;
            assigned = s.held.len();
        }
    }

    // fair tail: no loss, everything delivered promptly, until every connection has ended or 80 s passed
    tr.line(json!({"ev": "FaultsEnd", "t": s.t_ms()}));
    let tail_start = s.t_ms();
    while !s.dead && s.t_ms() - tail_start < 80_000 {
        // stop early once every connection object has reached its final state and nothing is in flight
        let all_done = s.slots.iter().all(|c| c.client.as_ref().map_or(true, |c| !c.is_active()))
            && s.slots.iter().all(|c| s.server.as_ref().unwrap().client(&c.relay_addr).is_none())
            && s.held.is_empty();
        if all_done && s.t_ms() - tail_start > 45_000 {
            break;
        }
        advance_ms(100);
        let held = std::mem::take(&mut s.held);
        for h in held.into_iter() {
            s.forward(tr, &h, "deliver");
        }
        s.step_server(tr);
        for i in 0..nclients {
            s.step_client(tr, i);
        }
        let held = std::mem::take(&mut s.held);
        for h in held.into_iter() {
            s.forward(tr, &h, "deliver");
        }
    }
    tr.line(json!({"ev": "End", "run": run, "dead": s.dead, "calls": s.calls}));
    SessStats { wire: s.wire_idx, dead: s.dead }
}

fn amp_flood(s: &mut Sess, tr: &mut Trace, r: &mut Rng, nraw: usize) {
    let k = r.below(nraw as u64) as usize;
    let nonce = r.next() as u32;
    if r.chance(3, 4) {
        s.inject_raw(tr, k, syn_bytes(3, nonce, 2_000_000, *r.pick(&[3000u32, 100_000, 1_000_000]), 1_000_000));
        s.step_server(tr);
    }
    let kind = r.below(12);
    let n = r.range(60, 400);
    for j in 0..n {
        if s.dead {
            return;
        }
        let bytes: Vec<u8> = match kind {
            0 => uv::Frame::HandshakeAckFrame(uv::HandshakeAckFrame { nonce_ack: r.next() as u32 }).write().to_vec(),
            1 => uv::Frame::HandshakeAckFrame(uv::HandshakeAckFrame { nonce_ack: nonce }).write().to_vec(),
            2 => uv::Frame::HandshakeSynAckFrame(uv::HandshakeSynAckFrame { nonce_ack: r.next() as u32, nonce: r.next() as u32, max_receive_rate: 2_000_000, max_packet_size: 1_000_000, max_receive_alloc: 1_000_000 }).write().to_vec(),
            3 => uv::Frame::HandshakeErrorFrame(uv::HandshakeErrorFrame { nonce_ack: r.next() as u32, error: uv::HandshakeErrorType::Config }).write().to_vec(),
            4 => uv::Frame::DisconnectFrame(uv::DisconnectFrame {}).write().to_vec(),
            5 => uv::Frame::DisconnectAckFrame(uv::DisconnectAckFrame {}).write().to_vec(),
            6 => uv::Frame::SyncFrame(uv::SyncFrame { next_frame_id: Some(r.next() as u32), next_packet_id: None }).write().to_vec(),
            7 => uv::Frame::AckFrame(uv::AckFrame { frame_window_base_id: r.next() as u32, packet_window_base_id: 0, frame_acks: vec![] }).write().to_vec(),
            8 => uv::Frame::DataFrame(uv::DataFrame { sequence_id: r.next() as u32, nonce: false, datagrams: vec![] }).write().to_vec(),
            9 => { let mut b = syn_bytes(3, r.next() as u32, 2_000_000, 1_000_000, 1_000_000); b.truncate(*r.pick(&[22usize, 30, 100])); let m = b.len();
                   let crc = uv::crc_compute(&b[..m - 4]); b[m - 4] = (crc >> 24) as u8; b[m - 3] = (crc >> 16) as u8; b[m - 2] = (crc >> 8) as u8; b[m - 1] = crc as u8; b }
            10 => syn_bytes(*r.pick(&[0u8, 2, 4]), r.next() as u32, 2_000_000, 1_000_000, 1_000_000)[..].to_vec(),
            _ => (0..r.range(1, 12)).map(|_| r.next() as u8).collect(),
        };
        s.inject_raw(tr, k, bytes);
        // a library-owned socket is never handed more than a few dozen datagrams between two steps
        if j % 40 == 39 {
            s.step_server(tr);
        }
    }
    s.step_server(tr);
}

fn forge_something(s: &mut Sess, tr: &mut Trace, r: &mut Rng, nclients: usize, nraw: usize, archive: &Vec<(usize, bool, Vec<u8>)>) {
    let use_raw = nraw > 0 && (nclients == 0 || r.chance(1, 2));
    // a nonce that is either random or taken from a frame that was really on the wire
    let mut known_nonce = r.next() as u32;
    if !archive.is_empty() && r.chance(2, 3) {
        let (_, _, b) = r.pick(archive);
        if let Some(f) = uv::Frame::read(b) {
            known_nonce = match f {
                uv::Frame::HandshakeSynFrame(f) => f.nonce,
                uv::Frame::HandshakeSynAckFrame(f) => if r.chance(1, 2) { f.nonce } else { f.nonce_ack },
                uv::Frame::HandshakeAckFrame(f) => f.nonce_ack,
                uv::Frame::HandshakeErrorFrame(f) => f.nonce_ack,
                _ => known_nonce,
            };
        }
    }
    let bytes: Vec<u8> = match r.below(12) {
        0 => syn_bytes(3, r.next() as u32, 2_000_000, 1_000_000, 1_000_000),
        1 => syn_bytes(*r.pick(&[0u8, 2, 4, 255]), r.next() as u32, 2_000_000, 1_000_000, 1_000_000),
        2 => syn_bytes(3, r.next() as u32, *r.pick(&[0u32, 1, u32::MAX]), *r.pick(&[0u32, 1, 1_000_000, u32::MAX]), *r.pick(&[0u32, 1, 1_000_000, u32::MAX])),
        3 => {
            // undersized SYN: right type byte, short length, valid CRC; limits of every size class (a parser that
            // ties the required padding to a field must still insist on the full frame)
            let mut b = syn_bytes(3, r.next() as u32, *r.pick(&[2_000_000u32, 0, 1]), *r.pick(&[1_000_000u32, 0, 1, 4, 100, 1448, 65536]), *r.pick(&[1_000_000u32, u32::MAX, 65536]));
            // lengths: below / at the header size, small, around the totals a server may send back (25 x 10, 25 x 11), large
            let cut = match r.below(3) { 0 => *r.pick(&[21usize, 22, 25, 100, 1471]), 1 => *r.pick(&[249usize, 250, 260, 275, 276, 300, 500, 736, 1000, 1470]), _ => r.range(22, 1471) as usize };
            b.truncate(cut);
            let n = b.len();
            let crc = uv::crc_compute(&b[..n - 4]);
            b[n - 4] = (crc >> 24) as u8; b[n - 3] = (crc >> 16) as u8; b[n - 2] = (crc >> 8) as u8; b[n - 1] = crc as u8;
            b
        }
        4 => uv::Frame::HandshakeAckFrame(uv::HandshakeAckFrame { nonce_ack: known_nonce }).write().to_vec(),
        5 => uv::Frame::HandshakeSynAckFrame(uv::HandshakeSynAckFrame { nonce_ack: known_nonce, nonce: r.next() as u32, max_receive_rate: *r.pick(&[0u32, 2_000_000]), max_packet_size: 1_000_000, max_receive_alloc: 1_000_000 }).write().to_vec(),
        6 => uv::Frame::HandshakeErrorFrame(uv::HandshakeErrorFrame { nonce_ack: known_nonce, error: r.pick(&[uv::HandshakeErrorType::Version, uv::HandshakeErrorType::Config, uv::HandshakeErrorType::ServerFull]).clone() }).write().to_vec(),
        7 => uv::Frame::DisconnectFrame(uv::DisconnectFrame {}).write().to_vec(),
        8 => uv::Frame::DisconnectAckFrame(uv::DisconnectAckFrame {}).write().to_vec(),
        9 => uv::Frame::SyncFrame(uv::SyncFrame { next_frame_id: Some(r.next() as u32), next_packet_id: Some(r.next() as u32) }).write().to_vec(),
        10 => uv::Frame::AckFrame(uv::AckFrame { frame_window_base_id: r.next() as u32, packet_window_base_id: r.next() as u32, frame_acks: vec![uv::AckGroup { base_id: r.next() as u32, bitfield: r.next() as u32, nonce: r.chance(1, 2) }] }).write().to_vec(),
        _ => (0..r.below(1473)).map(|_| r.next() as u8).collect(),
    };
    if use_raw {
        let k = r.below(nraw as u64) as usize;
        s.inject_raw(tr, k, bytes);
    } else if nclients > 0 {
        let i = r.below(nclients as u64) as usize;
        let to_server = r.chance(2, 3) || s.slots[i].client_addr.is_none();
        s.inject(tr, i, to_server, bytes);
    }
}
