//! Half-connection pair driver: two real `HalfConnection`s ("a" and "b"), a harness-owned network
//! between them, primitive operations that log one ndjson line per API call after it returned.

use crate::common::*;
use serde_json::{json, Value};
use std::collections::HashMap;
use uflow::verif as uv;
use uflow::verif::Serialize;
use uflow::SendMode;

pub fn mode_str(m: SendMode) -> &'static str {
    match m {
        SendMode::TimeSensitive => "T",
        SendMode::Unreliable => "U",
        SendMode::Persistent => "P",
        SendMode::Reliable => "R",
    }
}

pub fn mode_from(s: &str) -> SendMode {
    match s {
        "T" => SendMode::TimeSensitive,
        "U" => SendMode::Unreliable,
        "P" => SendMode::Persistent,
        _ => SendMode::Reliable,
    }
}

#[derive(Clone)]
pub struct SubRec {
    pub uid: u32,
    pub ch: u8,
    pub mode: SendMode,
    pub len: usize,
    pub nfrag: usize,
    pub assigned: bool,
    pub delivered: bool,
}

#[derive(Clone)]
pub struct PairCfg {
    pub pw: u32,
    pub fw: u32,
    pub pbase: [u32; 2], // tx packet base of a, b
    pub fbase: [u32; 2], // tx frame base of a, b
    pub rx_alloc: [usize; 2], // receive allocation limit of a, b
    pub bw: [u32; 2],    // tx bandwidth limit of a, b
    pub keepalive: Option<u64>,
}

struct VecSink {
    frames: Vec<Box<[u8]>>,
}
impl uv::FrameSink for VecSink {
    fn send(&mut self, frame_data: &[u8]) {
        in_callback(|| self.frames.push(frame_data.into()));
    }
}

struct PktSink {
    pkts: Vec<Box<[u8]>>,
}
impl uv::PacketSink for PktSink {
    fn send(&mut self, packet_data: Box<[u8]>) {
        in_callback(|| self.pkts.push(packet_data));
    }
}

pub struct Flight {
    pub idx: u64,
    pub dir: usize, // 0 = a->b, 1 = b->a
    pub bytes: Box<[u8]>,
    pub due: u64,
    pub seq: u64,
}

pub struct Endpoint {
    pub name: &'static str,
    pub hc: Option<uv::HalfConnection>,
    pub subs: Vec<SubRec>,          // submissions of this endpoint in order
    pub next_assign: usize,         // first submission index that may still get a packet id
    pub pid_uid: HashMap<u32, u32>, // absolute packet id -> uid (sender side)
    pub emit_idx: u64,
    pub last_pending: bool,
    pub last_bufsize: usize,
    pub last_tx_next: u32,
    pub steps: u64,            // number of step() calls so far (epoch for the TimeSensitive rule)
    pub sent_since_step: bool,
}

pub struct Pair {
    pub cfg: PairCfg,
    pub ep: [Endpoint; 2],
    pub net: Vec<Flight>,
    pub flight_seq: u64,
    pub t0_ns: u64,
    pub uid_next: u32,
    pub uid_info: HashMap<u32, (usize, usize)>, // uid -> (sender ep, index in subs)
    pub short_payloads: HashMap<Vec<u8>, Vec<u32>>, // payloads shorter than 4 bytes -> uids
    pub dead: bool, // a call panicked or hung; the run ends
    pub log_snap: bool,
    pub log_probe: bool,
    pub calls: u64,
    pub tamper: u64,      // per cent of genuine data frames followed by a disagreeing copy of one of their fragments
    pub tamper_rng: u64,
    pub tampered: u64,
    pub last_recv_matched: Vec<bool>, // for the packets returned by the latest receive(): byte-exact match with a submission?
    pub tamper_pool: [Vec<uv::Datagram>; 2], // genuine datagrams already handed to endpoint e
}

fn snap_json(s: &uv::VerifSnapshot, cfg: &PairCfg, e: usize) -> Value {
    let o = 1 - e;
    json!({
        "tx_base": rel20(s.tx_base, cfg.pbase[e]), "tx_next": rel20(s.tx_next, cfg.pbase[e]),
        "tx_alloc": s.tx_alloc, "tx_total": s.tx_total, "tx_queue": s.tx_queue,
        "pend": s.pend_len, "resend": s.resend_len,
        "f_log_base": rel32(s.f_log_base, cfg.fbase[e]), "f_win_base": rel32(s.f_win_base, cfg.fbase[e]),
        "f_next": rel32(s.f_next, cfg.fbase[e]),
        "rf_base": rel32(s.rf_base, cfg.fbase[o]), "ackq": s.ackq_len,
        "rx_base": rel20(s.rx_base, cfg.pbase[o]), "rx_end": rel20(s.rx_end, cfg.pbase[o]), "rx_alloc": s.rx_alloc,
        "credit": s.flush_alloc.clamp(-2_000_000_000, 2_000_000_000), "flush_id": s.flush_id & 0x3FFFFFFF, "sync_reply": s.sync_reply,
        "rate": s.rate.send_rate, "rmode": s.rate.mode,
    })
}

impl Pair {
    pub fn new(cfg: PairCfg) -> Self {
        let mk = |e: usize| {
            let o = 1 - e;
            uv::HalfConnection::new(uv::Config {
                tx_frame_base_id: cfg.fbase[e],
                rx_frame_base_id: cfg.fbase[o],
                tx_frame_window_size: cfg.fw,
                rx_frame_window_size: cfg.fw,
                tx_packet_base_id: cfg.pbase[e],
                rx_packet_base_id: cfg.pbase[o],
                tx_packet_window_size: cfg.pw,
                rx_packet_window_size: cfg.pw,
                tx_bandwidth_limit: cfg.bw[e],
                tx_alloc_limit: cfg.rx_alloc[o],
                rx_alloc_limit: cfg.rx_alloc[e],
                keepalive_interval_ms: cfg.keepalive,
            })
        };
        let t0 = vnow_ns();
        let a = mk(0);
        let b = mk(1);
        let mkep = |name, hc| Endpoint {
            name,
            hc: Some(hc),
            subs: Vec::new(),
            next_assign: 0,
            pid_uid: HashMap::new(),
            emit_idx: 0,
            last_pending: false,
            last_bufsize: 0,
            last_tx_next: u32::MAX,
            steps: 0,
            sent_since_step: false,
        };
        Self {
            cfg,
            ep: [mkep("a", a), mkep("b", b)],
            net: Vec::new(),
            flight_seq: 0,
            t0_ns: t0,
            uid_next: 1,
            uid_info: HashMap::new(),
            short_payloads: HashMap::new(),
            dead: false,
            log_snap: false,
            log_probe: true,
            calls: 0,
            tamper: 0,
            tamper_rng: 0x1234567,
            tampered: 0,
            last_recv_matched: Vec::new(),
            tamper_pool: [Vec::new(), Vec::new()],
        }
    }

    pub fn t_ms(&self) -> u64 {
        (vnow_ns() - self.t0_ns) / 1_000_000
    }

    pub fn cfg_json(&self) -> Value {
        let c = &self.cfg;
        json!({"pw": c.pw, "fw": c.fw, "rx_alloc_a": c.rx_alloc[0], "rx_alloc_b": c.rx_alloc[1],
               "bw_a": c.bw[0], "bw_b": c.bw[1], "keepalive": c.keepalive.map(|v| v as i64).unwrap_or(-1),
               "pbase_a": c.pbase[0], "pbase_b": c.pbase[1], "fbase_a": c.fbase[0] as u64, "fbase_b": c.fbase[1] as u64})
    }

    fn ret_panic(&mut self, tr: &mut Trace, e: usize, call: &str, oc: CallOutcome) {
        tr.line(json!({"ev": "Ret", "ep": self.ep[e].name, "call": call, "outcome": "panic", "msg": oc.msg, "file": oc.file, "t": self.t_ms()}));
        self.ep[e].hc = None;
        self.dead = true;
    }

    fn hang_line(&self, e: usize, call: &str) -> String {
        json!({"ev": "Ret", "ep": self.ep[e].name, "call": call, "outcome": "hang", "msg": "no return within 20 s of real time", "file": "", "t": self.t_ms()}).to_string()
    }

    pub fn probe(&mut self, tr: &mut Trace, e: usize) {
        if let Some(hc) = self.ep[e].hc.as_ref() {
            let pending = hc.is_send_pending();
            let bufsize = hc.send_buffer_size();
            self.ep[e].last_pending = pending;
            self.ep[e].last_bufsize = bufsize;
            if self.log_probe {
                let big = bufsize > 2_000_000_000;
                tr.line(json!({"ev": "Probe", "ep": self.ep[e].name, "pending": pending,
                    "bufsize": if big { -1 } else { bufsize as i64 }, "t": self.t_ms()}));
            }
        }
    }

    // ---------------------------------------------------------------------------------------- send
    pub fn send(&mut self, tr: &mut Trace, e: usize, ch: u8, mode: SendMode, len: usize) -> u32 {
        if self.dead {
            return 0;
        }
        let uid = self.uid_next;
        self.uid_next += 1;
        // payloads shorter than 4 bytes cannot carry the whole uid: keep each one unique within the
        // run (otherwise lengthen it), so that identification of a delivered payload is never a guess
        let mut len = len;
        if len < 4 && self.short_payloads.contains_key(&payload(uid, len).to_vec()) {
            len = 4 + len;
        }
        let data = payload(uid, len);
        if len < 4 {
            self.short_payloads.entry(data.to_vec()).or_default().push(uid);
        }
        let nfrag = if len == 0 { 1 } else { (len + MAX_FRAGMENT_SIZE - 1) / MAX_FRAGMENT_SIZE };
        let idx = self.ep[e].subs.len();
        self.ep[e].subs.push(SubRec { uid, ch, mode, len, nfrag, assigned: false, delivered: false });
        self.uid_info.insert(uid, (e, idx));
        let hl = self.hang_line(e, "send");
        self.calls += 1;
        let r = {
            let hc = self.ep[e].hc.as_mut().unwrap();
            guarded(&hl, || hc.send(data, ch, mode))
        };
        self.ep[e].sent_since_step = true;
        tr.line(json!({"ev": "Send", "ep": self.ep[e].name, "uid": uid, "ch": ch, "mode": mode_str(mode), "len": len, "nfrag": nfrag, "t": self.t_ms(), "sn": self.ep[e].steps}));
        match r {
            Ok(()) => self.probe(tr, e),
            Err(oc) => self.ret_panic(tr, e, "send", oc),
        }
        uid
    }

    // ---------------------------------------------------------------------------------------- step
    pub fn step(&mut self, tr: &mut Trace, e: usize, log: bool) {
        if self.dead {
            return;
        }
        let hl = self.hang_line(e, "step");
        self.calls += 1;
        let r = {
            let hc = self.ep[e].hc.as_mut().unwrap();
            guarded(&hl, || hc.step())
        };
        self.ep[e].steps += 1;
        let log = log || self.ep[e].sent_since_step;
        self.ep[e].sent_since_step = false;
        match r {
            Ok(()) => {
                if log {
                    let hc = self.ep[e].hc.as_ref().unwrap();
                    let s = hc.verif_snapshot();
                    let rtt_us = hc.rtt_s().map(|r| (r * 1e6).round().min(2e9) as i64).unwrap_or(-1);
                    let mut v = json!({"ev": "Step", "ep": self.ep[e].name, "t": self.t_ms(), "sn": self.ep[e].steps, "rtt_us": rtt_us,
                        "rate": s.rate.send_rate, "credit": s.flush_alloc.clamp(-2_000_000_000, 2_000_000_000), "rmode": s.rate.mode});
                    if self.log_snap {
                        v["snap"] = snap_json(&s, &self.cfg, e);
                    }
                    tr.line(v);
                }
                self.probe(tr, e);
            }
            Err(oc) => self.ret_panic(tr, e, "step", oc),
        }
    }

    // --------------------------------------------------------------------------------------- flush
    /// Calls flush() (or the logical-mode emit hook) and returns the emitted frames. Each frame is
    /// logged as an Emit line with its decoded contents.
    pub fn flush(&mut self, tr: &mut Trace, e: usize, logical: Option<(isize, u64, u64, u64)>) -> Vec<(u64, Box<[u8]>)> {
        if self.dead {
            return Vec::new();
        }
        let mut sink = VecSink { frames: Vec::new() };
        let hl = self.hang_line(e, "flush");
        self.calls += 1;
        let r = {
            let hc = self.ep[e].hc.as_mut().unwrap();
            guarded(&hl, || match logical {
                None => hc.flush(&mut sink),
                Some((credit, now_ms, rtt_ms, rto_ms)) => {
                    hc.verif_set_flush_alloc(credit);
                    hc.verif_emit_frames(now_ms, rtt_ms, rto_ms, &mut sink);
                }
            })
        };
        let mut out = Vec::new();
        let frames = std::mem::take(&mut sink.frames);
        for bytes in frames.into_iter() {
            let idx = self.ep[e].emit_idx;
            self.ep[e].emit_idx += 1;
            let v = self.describe_emit(e, idx, &bytes);
            tr.line(v);
            out.push((idx, bytes));
        }
        match r {
            Ok(()) => {
                let s = self.ep[e].hc.as_ref().unwrap().verif_snapshot();
                let quiet = out.is_empty() && self.ep[e].last_tx_next == s.tx_next && !self.log_snap;
                self.ep[e].last_tx_next = s.tx_next;
                if quiet {
                    self.probe(tr, e);
                    return out;
                }
                let mut v = json!({"ev": "FlushEnd", "ep": self.ep[e].name, "t": self.t_ms(),
                    "tx_next": rel20(s.tx_next, self.cfg.pbase[e]), "tx_base": rel20(s.tx_base, self.cfg.pbase[e]),
                    "credit": s.flush_alloc.clamp(-2_000_000_000, 2_000_000_000)});
                if self.log_snap {
                    v["snap"] = snap_json(&s, &self.cfg, e);
                }
                tr.line(v);
                self.probe(tr, e);
            }
            Err(oc) => self.ret_panic(tr, e, "flush", oc),
        }
        out
    }

    /// Identify the uid of a packet id first seen in an emitted datagram: the first not-yet-assigned
    /// submission of this endpoint whose channel, fragment count and bytes match.
    fn identify_pid(&mut self, e: usize, dg: &uv::Datagram) -> i64 {
        if let Some(u) = self.ep[e].pid_uid.get(&dg.sequence_id) {
            return *u as i64;
        }
        let ep = &mut self.ep[e];
        let mut i = ep.next_assign;
        while i < ep.subs.len() {
            let s = &ep.subs[i];
            if !s.assigned && s.ch == dg.channel_id && s.nfrag == dg.fragment_id_last as usize + 1 {
                let full = payload(s.uid, s.len);
                let lo = dg.fragment_id as usize * MAX_FRAGMENT_SIZE;
                let hi = (lo + MAX_FRAGMENT_SIZE).min(s.len);
                if lo <= s.len && &full[lo..hi.max(lo)] == &dg.data[..] {
                    let uid = s.uid;
                    ep.subs[i].assigned = true;
                    ep.pid_uid.insert(dg.sequence_id, uid);
                    // everything before i that is unassigned was skipped by the sender (stale TimeSensitive)
                    ep.next_assign = i + 1;
                    return uid as i64;
                }
            }
            i += 1;
        }
        -1
    }

    fn describe_emit(&mut self, e: usize, idx: u64, bytes: &[u8]) -> Value {
        let name = self.ep[e].name;
        let o = 1 - e;
        let t = self.t_ms();
        match uv::Frame::read(bytes) {
            Some(uv::Frame::DataFrame(f)) => {
                let mut dgs = Vec::new();
                for dg in f.datagrams.iter() {
                    let uid = self.identify_pid(e, dg);
                    let mode = if uid >= 0 {
                        let (se, si) = self.uid_info[&(uid as u32)];
                        mode_str(self.ep[se].subs[si].mode)
                    } else {
                        "?"
                    };
                    dgs.push(json!({"pid": rel20(dg.sequence_id, self.cfg.pbase[e]), "uid": uid, "mode": mode, "frag": dg.fragment_id, "last": dg.fragment_id_last,
                        "ch": dg.channel_id, "wpl": dg.window_parent_lead, "cpl": dg.channel_parent_lead, "dlen": dg.data.len()}));
                }
                json!({"ev": "Emit", "ep": name, "idx": idx, "t": t, "sn": self.ep[e].steps, "len": bytes.len(), "kind": "D",
                       "fid": rel32(f.sequence_id, self.cfg.fbase[e]), "nonce": f.nonce, "dgs": dgs})
            }
            Some(uv::Frame::AckFrame(f)) => {
                let groups: Vec<Value> = f.frame_acks.iter().map(|g| json!({"base": rel32(g.base_id, self.cfg.fbase[o]),
                    "bits_lo": g.bitfield & 0xFFFF, "bits_hi": g.bitfield >> 16, "nonce": g.nonce})).collect();
                json!({"ev": "Emit", "ep": name, "idx": idx, "t": t, "len": bytes.len(), "kind": "A",
                       "fbase": rel32(f.frame_window_base_id, self.cfg.fbase[o]), "pbase": rel20(f.packet_window_base_id, self.cfg.pbase[o]), "groups": groups})
            }
            Some(uv::Frame::SyncFrame(f)) => {
                json!({"ev": "Emit", "ep": name, "idx": idx, "t": t, "len": bytes.len(), "kind": "S",
                       "nfid": f.next_frame_id.map(|v| rel32(v, self.cfg.fbase[e])).unwrap_or(-1),
                       "npid": f.next_packet_id.map(|v| rel20(v, self.cfg.pbase[e])).unwrap_or(-1),
                       "has_nfid": f.next_frame_id.is_some(), "has_npid": f.next_packet_id.is_some()})
            }
            _ => json!({"ev": "Emit", "ep": name, "idx": idx, "t": t, "len": bytes.len(), "kind": "X"}),
        }
    }

    // -------------------------------------------------------------------------------------- handle
    /// Hand a byte string to endpoint `e` the way Client/Server do: Frame::read, then dispatch.
    /// `origin` describes where the bytes came from (genuine emission index, fate) for the log.
    pub fn handle_bytes(&mut self, tr: &mut Trace, e: usize, bytes: &[u8], origin: Value) {
        if self.dead {
            return;
        }
        let hl = self.hang_line(e, "read");
        let parsed = match guarded(&hl, || uv::Frame::read(bytes)) {
            Ok(p) => p,
            Err(oc) => {
                self.ret_panic(tr, e, "read", oc);
                return;
            }
        };
        match parsed {
            None => {
                tr.line(json!({"ev": "Handle", "ep": self.ep[e].name, "kind": "reject", "t": self.t_ms(), "origin": origin}));
            }
            Some(f) => self.handle_frame(tr, e, f, origin),
        }
    }

    pub fn handle_frame(&mut self, tr: &mut Trace, e: usize, f: uv::Frame, origin: Value) {
        if self.dead {
            return;
        }
        let o = 1 - e;
        let name = self.ep[e].name;
        let t = self.t_ms();
        let pre = self.ep[e].hc.as_ref().unwrap().verif_snapshot();
        let (kind, desc, call) = match &f {
            uv::Frame::DataFrame(d) => {
                let dgs: Vec<Value> = d.datagrams.iter().map(|dg| json!({"pid": rel20(dg.sequence_id, self.cfg.pbase[o]), "frag": dg.fragment_id,
                    "last": dg.fragment_id_last, "ch": dg.channel_id, "wpl": dg.window_parent_lead, "cpl": dg.channel_parent_lead, "dlen": dg.data.len()})).collect();
                ("D", json!({"fid": rel32(d.sequence_id, self.cfg.fbase[o]), "nonce": d.nonce, "dgs": dgs}), "handle_data_frame")
            }
            uv::Frame::SyncFrame(s) => (
                "S",
                json!({"nfid": s.next_frame_id.map(|v| rel32(v, self.cfg.fbase[o])).unwrap_or(-1), "npid": s.next_packet_id.map(|v| rel20(v, self.cfg.pbase[o])).unwrap_or(-1),
                       "has_nfid": s.next_frame_id.is_some(), "has_npid": s.next_packet_id.is_some()}),
                "handle_sync_frame",
            ),
            uv::Frame::AckFrame(a) => {
                let groups: Vec<Value> = a.frame_acks.iter().map(|g| json!({"base": rel32(g.base_id, self.cfg.fbase[e]),
                    "bits_lo": g.bitfield & 0xFFFF, "bits_hi": g.bitfield >> 16, "nonce": g.nonce})).collect();
                ("A", json!({"fbase": rel32(a.frame_window_base_id, self.cfg.fbase[e]), "pbase": rel20(a.packet_window_base_id, self.cfg.pbase[e]), "groups": groups}), "handle_ack_frame")
            }
            _ => ("H", json!({}), "ignored"),
        };
        let hl = self.hang_line(e, call);
        self.calls += 1;
        let r = {
            let hc = self.ep[e].hc.as_mut().unwrap();
            guarded(&hl, || match f {
                uv::Frame::DataFrame(d) => hc.handle_data_frame(d),
                uv::Frame::SyncFrame(s) => hc.handle_sync_frame(s),
                uv::Frame::AckFrame(a) => hc.handle_ack_frame(a),
                _ => (),
            })
        };
        match r {
            Ok(()) => {
                let post = self.ep[e].hc.as_ref().unwrap().verif_snapshot();
                let mut v = json!({"ev": "Handle", "ep": name, "kind": kind, "t": t, "origin": origin, "f": desc,
                    "pre_f_log_base": rel32(pre.f_log_base, self.cfg.fbase[e]), "pre_f_next": rel32(pre.f_next, self.cfg.fbase[e]),
                    "pre_tx_base": rel20(pre.tx_base, self.cfg.pbase[e]), "pre_tx_next": rel20(pre.tx_next, self.cfg.pbase[e]),
                    "post_tx_base": rel20(post.tx_base, self.cfg.pbase[e]),
                    "rx_alloc": post.rx_alloc, "ackq": post.ackq_len});
                if kind == "D" {
                    // what the receiver really holds (buffer sizes), next to its own counter
                    v["rx_held"] = json!(self.ep[e].hc.as_ref().unwrap().verif_rx_held_bytes());
                }
                if self.log_snap {
                    v["snap"] = snap_json(&post, &self.cfg, e);
                }
                tr.line(v);
                self.probe(tr, e);
            }
            Err(oc) => self.ret_panic(tr, e, call, oc),
        }
    }

    // ------------------------------------------------------------------------------------- receive
    pub fn receive(&mut self, tr: &mut Trace, e: usize) -> Vec<i64> {
        if self.dead {
            return Vec::new();
        }
        let mut sink = PktSink { pkts: Vec::new() };
        let hl = self.hang_line(e, "receive");
        self.calls += 1;
        let r = {
            let hc = self.ep[e].hc.as_mut().unwrap();
            guarded(&hl, || hc.receive(&mut sink))
        };
        let mut uids = Vec::new();
        self.last_recv_matched.clear();
        let pkts = std::mem::take(&mut sink.pkts);
        for p in pkts.into_iter() {
            let (uid, matched) = self.identify_payload(1 - e, &p);
            uids.push(uid);
            self.last_recv_matched.push(matched);
            tr.line(json!({"ev": "Deliver", "ep": self.ep[e].name, "uid": uid, "match": matched, "len": p.len(), "t": self.t_ms()}));
        }
        match r {
            Ok(()) => {
                if self.log_snap {
                    let s = self.ep[e].hc.as_ref().unwrap().verif_snapshot();
                    tr.line(json!({"ev": "RecvEnd", "ep": self.ep[e].name, "t": self.t_ms(), "snap": snap_json(&s, &self.cfg, e)}));
                }
            }
            Err(oc) => self.ret_panic(tr, e, "receive", oc),
        }
        uids
    }

    /// Which submission of endpoint `se` is this delivered payload? (uid, byte-exact match)
    fn identify_payload(&mut self, se: usize, p: &[u8]) -> (i64, bool) {
        if p.len() >= 4 {
            let uid = u32::from_le_bytes([p[0], p[1], p[2], p[3]]);
            if let Some(&(e, i)) = self.uid_info.get(&uid) {
                if e == se {
                    let s = &mut self.ep[e].subs[i];
                    let exact = s.len == p.len() && &payload(uid, s.len)[..] == p;
                    if exact {
                        s.delivered = true;
                    }
                    return (uid as i64, exact);
                }
            }
            (-1, false)
        } else {
            // short payloads: the earliest undelivered submission of the peer with identical bytes
            if let Some(c) = self.short_payloads.get(p) {
                let mut best: Option<(usize, u32)> = None;
                for &uid in c.iter() {
                    let (e, i) = self.uid_info[&uid];
                    if e == se && !self.ep[e].subs[i].delivered {
                        if best.map_or(true, |(bi, _)| i < bi) {
                            best = Some((i, uid));
                        }
                    }
                }
                if let Some((i, uid)) = best {
                    self.ep[se].subs[i].delivered = true;
                    return (uid as i64, true);
                }
                // all candidates already delivered: report the first as a duplicate
                for &uid in c.iter() {
                    let (e, _) = self.uid_info[&uid];
                    if e == se {
                        return (uid as i64, true);
                    }
                }
            }
            (-1, false)
        }
    }

    // ------------------------------------------------------------------------------------- network
    pub fn launch(&mut self, dir: usize, idx: u64, bytes: Box<[u8]>, due: u64) {
        self.flight_seq += 1;
        self.net.push(Flight { idx, dir, bytes, due, seq: self.flight_seq });
    }

    /// Deliver every flight for endpoint `e` whose due time has passed, in (due, seq) order.
    pub fn deliver_due(&mut self, tr: &mut Trace, e: usize) -> usize {
        let dir = 1 - e; // frames travelling a->b (dir 0) arrive at b (e = 1)
        let now = self.t_ms();
        let mut due: Vec<Flight> = Vec::new();
        let mut rest: Vec<Flight> = Vec::new();
        for f in std::mem::take(&mut self.net).into_iter() {
            if f.dir == dir && f.due <= now {
                due.push(f);
            } else {
                rest.push(f);
            }
        }
        self.net = rest;
        due.sort_by_key(|f| (f.due, f.seq));
        let n = due.len();
        for f in due.into_iter() {
            let pre = self.ep[e].hc.as_ref().map(|h| h.verif_snapshot().rf_base);
            self.handle_bytes(tr, e, &f.bytes, json!({"idx": f.idx}));
            if self.tamper > 0 && !self.dead {
                // remember the datagrams of genuine frames the frame window accepted (they came first)
                let post = self.ep[e].hc.as_ref().map(|h| h.verif_snapshot().rf_base);
                if let (Some(a), Some(b), Some(uv::Frame::DataFrame(df))) = (pre, post, uv::Frame::read(&f.bytes)) {
                    if a != b && b == df.sequence_id.wrapping_add(1) {
                        for d in df.datagrams.into_iter() {
                            if self.tamper_pool[e].len() >= 48 {
                                self.tamper_pool[e].remove(0);
                            }
                            self.tamper_pool[e].push(d);
                        }
                    }
                }
            }
        }
        if self.tamper > 0 && !self.dead && !self.tamper_pool[e].is_empty() {
            self.tamper_after(tr, e);
        }
        n
    }

    /// C04: after a genuine data frame has been handed over, hand over a copy of one of its fragments that
    /// disagrees with it (different payload length or contents, or different header fields), carried by a
    /// frame id the receiver still accepts.  The genuine fragment came first, so nothing may change.
    fn tamper_after(&mut self, tr: &mut Trace, e: usize) {
        let mut r = Rng::new(self.tamper_rng);
        self.tamper_rng = r.next();
        if !r.chance(self.tamper, 100) {
            return;
        }
        {
            // prefer last fragments of multi-fragment packets: their length decides the packet's length
            let lasts: Vec<usize> = self.tamper_pool[e].iter().enumerate().filter(|(_, d)| d.fragment_id_last > 0 && d.fragment_id == d.fragment_id_last).map(|(i, _)| i).collect();
            let i = if !lasts.is_empty() && r.chance(9, 10) { *r.pick(&lasts) } else { r.below(self.tamper_pool[e].len() as u64) as usize };
            let mut d = self.tamper_pool[e][i].clone();
            let is_last = d.fragment_id == d.fragment_id_last;
            let v = if is_last && d.fragment_id_last > 0 && r.chance(4, 5) { r.below(2) } else { r.below(5) };
            match v {
                0 if is_last => { let n = r.below(d.data.len() as u64 + 1) as usize; d.data = d.data[..n].to_vec().into_boxed_slice(); }            // shorter copy of the last fragment
                1 if is_last && d.data.len() < MAX_FRAGMENT_SIZE => { let mut v = d.data.to_vec(); v.extend(std::iter::repeat(0x5A).take(r.range(1, (MAX_FRAGMENT_SIZE - v.len()) as u64) as usize)); d.data = v.into_boxed_slice(); } // longer copy
                2 => { let mut v = d.data.to_vec(); for b in v.iter_mut() { *b ^= 0xFF; } d.data = v.into_boxed_slice(); }                              // same shape, other contents
                3 if d.fragment_id_last > 0 => { d.fragment_id_last += 1; if d.fragment_id < d.fragment_id_last && d.data.len() != MAX_FRAGMENT_SIZE { return; } }
                _ => { d.window_parent_lead = d.window_parent_lead.wrapping_add(1).max(1); if d.channel_parent_lead != 0 && d.channel_parent_lead < d.window_parent_lead { d.channel_parent_lead = d.window_parent_lead; } }
            }
            let s = self.ep[e].hc.as_ref().unwrap().verif_snapshot();
            let forged = uv::Frame::DataFrame(uv::DataFrame { sequence_id: s.rf_base, nonce: r.chance(1, 2), datagrams: vec![d] });
            if let Ok(b) = std::panic::catch_unwind(std::panic::AssertUnwindSafe(|| forged.write())) {
                if b.len() <= MAX_FRAME_SIZE {
                    self.tampered += 1;
                    self.handle_bytes(tr, e, &b, json!({"forged": "disagreeing-fragment"}));
                }
            }
        }
    }

    pub fn in_flight(&self, dir: usize) -> usize {
        self.net.iter().filter(|f| f.dir == dir).count()
    }
}
