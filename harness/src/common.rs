//! Shared infrastructure: virtual clock (symbol interposition of clock_gettime), real clock via raw
//! syscall, SIGALRM watchdog, SplitMix64 PRNG, ndjson trace writer.

use std::io::Write;
use std::os::unix::io::AsRawFd;
use std::sync::atomic::{AtomicBool, AtomicI32, AtomicU64, Ordering};

// ------------------------------------------------------------------------------------------------
// Virtual clock. std's Instant::now() calls clock_gettime(CLOCK_MONOTONIC); because std is linked
// statically into this binary the reference resolves to the definition below.

static VNOW_NS: AtomicU64 = AtomicU64::new(1_000_000_000_000); // start far from zero

#[no_mangle]
pub unsafe extern "C" fn clock_gettime(_clk: libc::clockid_t, ts: *mut libc::timespec) -> libc::c_int {
    let ns = VNOW_NS.load(Ordering::SeqCst);
    (*ts).tv_sec = (ns / 1_000_000_000) as libc::time_t;
    (*ts).tv_nsec = (ns % 1_000_000_000) as libc::c_long;
    0
}

pub fn vnow_ns() -> u64 {
    VNOW_NS.load(Ordering::SeqCst)
}

pub fn advance_ms(ms: u64) {
    VNOW_NS.fetch_add(ms * 1_000_000, Ordering::SeqCst);
}

pub fn advance_us(us: u64) {
    VNOW_NS.fetch_add(us * 1_000, Ordering::SeqCst);
}

/// Real monotonic time in ms, bypassing the interposed symbol.
pub fn real_ms() -> u64 {
    let mut ts = libc::timespec { tv_sec: 0, tv_nsec: 0 };
    unsafe {
        libc::syscall(libc::SYS_clock_gettime, libc::CLOCK_MONOTONIC, &mut ts as *mut libc::timespec);
    }
    (ts.tv_sec as u64) * 1000 + (ts.tv_nsec as u64) / 1_000_000
}

/// Exit with code 2 (tool error) unless Instant::now() follows the virtual clock.
pub fn selftest_clock() {
    let a = std::time::Instant::now();
    advance_ms(5000);
    let b = std::time::Instant::now();
    let d = (b - a).as_millis();
    if d != 5000 {
        eprintln!("TOOL-ERROR: clock interposition not in effect (delta {} ms)", d);
        std::process::exit(2);
    }
}

// ------------------------------------------------------------------------------------------------
// Watchdog: a real-time interval timer; the handler writes a pre-formatted hang record to the trace
// file descriptor and exits with status 3. Armed around every call into the library.

static WD_FD: AtomicI32 = AtomicI32::new(-1);
static WD_ARMED: AtomicBool = AtomicBool::new(false);
pub static WD_SECS: AtomicU64 = AtomicU64::new(20);
static mut WD_MSG: [u8; 512] = [0; 512];
static WD_MSG_LEN: AtomicU64 = AtomicU64::new(0);

extern "C" fn on_alarm(_sig: libc::c_int) {
    if WD_ARMED.load(Ordering::SeqCst) {
        let fd = WD_FD.load(Ordering::SeqCst);
        let n = WD_MSG_LEN.load(Ordering::SeqCst) as usize;
        unsafe {
            if fd >= 0 && n > 0 {
                let p = std::ptr::addr_of!(WD_MSG) as *const u8;
                libc::write(fd, p as *const libc::c_void, n);
            }
            libc::_exit(3);
        }
    }
}

pub fn watchdog_install(fd: i32) {
    WD_FD.store(fd, Ordering::SeqCst);
    unsafe {
        libc::signal(libc::SIGALRM, on_alarm as usize);
    }
}

/// Arm the watchdog: if `disarm` is not called within `secs` real seconds the process writes `msg`
/// (one ndjson line) to the trace and exits 3.
pub fn watchdog_arm(secs: u32, msg: &str) {
    let bytes = msg.as_bytes();
    let n = bytes.len().min(510);
    unsafe {
        let p = std::ptr::addr_of_mut!(WD_MSG) as *mut u8;
        std::ptr::copy_nonoverlapping(bytes.as_ptr(), p, n);
        *p.add(n) = b'\n';
    }
    WD_MSG_LEN.store((n + 1) as u64, Ordering::SeqCst);
    WD_ARMED.store(true, Ordering::SeqCst);
    unsafe {
        libc::alarm(secs);
    }
}

pub fn watchdog_disarm() {
    WD_ARMED.store(false, Ordering::SeqCst);
    unsafe {
        libc::alarm(0);
    }
}

// ------------------------------------------------------------------------------------------------
// PRNG

#[derive(Clone)]
pub struct Rng {
    s: u64,
}

impl Rng {
    pub fn new(seed: u64) -> Self {
        Self { s: seed ^ 0x5DEECE66D }
    }
    pub fn next(&mut self) -> u64 {
        self.s = self.s.wrapping_add(0x9E3779B97F4A7C15);
        let mut z = self.s;
        z = (z ^ (z >> 30)).wrapping_mul(0xBF58476D1CE4E5B9);
        z = (z ^ (z >> 27)).wrapping_mul(0x94D049BB133111EB);
        z ^ (z >> 31)
    }
    pub fn below(&mut self, n: u64) -> u64 {
        if n == 0 { 0 } else { self.next() % n }
    }
    pub fn range(&mut self, lo: u64, hi: u64) -> u64 {
        lo + self.below(hi - lo + 1)
    }
    pub fn chance(&mut self, num: u64, den: u64) -> bool {
        self.below(den) < num
    }
    pub fn pick<'a, T>(&mut self, xs: &'a [T]) -> &'a T {
        &xs[self.below(xs.len() as u64) as usize]
    }
    pub fn f64(&mut self) -> f64 {
        (self.next() >> 11) as f64 / (1u64 << 53) as f64
    }
}

pub fn mix(a: u64, b: u64) -> u64 {
    let mut r = Rng::new(a.wrapping_mul(0x9E3779B97F4A7C15) ^ b);
    r.next()
}

// ------------------------------------------------------------------------------------------------
// Trace writer

pub struct Trace {
    out: std::io::BufWriter<std::fs::File>,
    pub lines: u64,
    /// while set, only Ret lines (panics, hangs) are written: the silent continuation of a run whose trace budget is used up
    pub muted: bool,
}

impl Trace {
    pub fn create(path: &str) -> Self {
        let f = std::fs::OpenOptions::new().create(true).write(true).truncate(true).open(path).unwrap_or_else(|e| {
            eprintln!("TOOL-ERROR: cannot open trace {}: {}", path, e);
            std::process::exit(2);
        });
        watchdog_install(f.as_raw_fd());
        Self { out: std::io::BufWriter::with_capacity(1 << 20, f), lines: 0, muted: false }
    }
    pub fn line(&mut self, v: serde_json::Value) {
        if self.muted && v.get("ev").and_then(|e| e.as_str()) != Some("Ret") {
            return;
        }
        let _ = serde_json::to_writer(&mut self.out, &v);
        let _ = self.out.write_all(b"\n");
        // unbuffered on purpose: when the watchdog ends the process inside a library call that never
        // returns, every line logged before that call must already be in the file
        let _ = self.out.flush();
        self.lines += 1;
    }
    pub fn raw(&mut self, s: &str) {
        let _ = self.out.write_all(s.as_bytes());
        let _ = self.out.write_all(b"\n");
        self.lines += 1;
    }
    pub fn flush(&mut self) {
        let _ = self.out.flush();
    }
}

/// Progress file: the Python driver reads it to learn which run was in flight when the process died.
pub fn progress(path: &Option<String>, text: &str) {
    if let Some(p) = path {
        let _ = std::fs::write(p, text);
    }
}

// ------------------------------------------------------------------------------------------------
// Panic capture: every call into the library goes through `guarded`.

pub struct CallOutcome {
    pub ok: bool,
    pub msg: String,
    pub file: String,
}

thread_local! {
    static LAST_PANIC: std::cell::RefCell<(String, String)> = std::cell::RefCell::new((String::new(), String::new()));
}

pub fn install_panic_hook() {
    std::panic::set_hook(Box::new(|info| {
        let msg = if let Some(s) = info.payload().downcast_ref::<&str>() {
            s.to_string()
        } else if let Some(s) = info.payload().downcast_ref::<String>() {
            s.clone()
        } else {
            "panic".to_string()
        };
        let loc = info.location().map(|l| format!("{}:{}", l.file(), l.line())).unwrap_or_default();
        LAST_PANIC.with(|p| *p.borrow_mut() = (msg, loc));
    }));
}

/// Run `f` (a call into the library) under catch_unwind and the hang watchdog.
pub fn guarded<R>(hang_line: &str, f: impl FnOnce() -> R) -> Result<R, CallOutcome> {
    watchdog_arm(WD_SECS.load(Ordering::SeqCst) as u32, hang_line);
    let outer = crate::alloc::IN_LIB.swap(true, Ordering::SeqCst);
    let r = std::panic::catch_unwind(std::panic::AssertUnwindSafe(f));
    crate::alloc::IN_LIB.store(outer, Ordering::SeqCst);
    watchdog_disarm();
    match r {
        Ok(v) => Ok(v),
        Err(_) => {
            let (msg, file) = LAST_PANIC.with(|p| p.borrow().clone());
            Err(CallOutcome { ok: false, msg, file })
        }
    }
}

/// Run a harness callback that the library invoked: allocations made here are the harness's.
pub fn in_callback<R>(f: impl FnOnce() -> R) -> R {
    let outer = crate::alloc::IN_CB.swap(true, Ordering::SeqCst);
    let r = f();
    crate::alloc::IN_CB.store(outer, Ordering::SeqCst);
    r
}

// ------------------------------------------------------------------------------------------------
// 20-bit packet id arithmetic (mirrors src/packet_id.rs; used only to compute *relative* ids for logs)

pub const PID_MASK: u32 = 0xFFFFF;
pub fn pid_sub(a: u32, b: u32) -> u32 {
    a.wrapping_sub(b) & PID_MASK
}
pub fn pid_add(a: u32, b: u32) -> u32 {
    a.wrapping_add(b) & PID_MASK
}

/// Relative value as a small signed integer for logging (TLC integers are 32 bit).
pub fn rel32(v: u32, base: u32) -> i64 {
    let d = v.wrapping_sub(base);
    if d < 0x4000_0000 { d as i64 } else if d >= 0xC000_0000 { (d as i32) as i64 } else { 0x3FFF_FFFF }
}
pub fn rel20(v: u32, base: u32) -> i64 {
    if v > PID_MASK {
        return 0x3FFF_FFFE; // class "bits above 2^20 set"
    }
    let d = pid_sub(v, base);
    if d < 0x80000 { d as i64 } else { d as i64 - 0x100000 }
}

pub const MAX_FRAGMENT_SIZE: usize = 1448;
pub const MAX_FRAME_SIZE: usize = 1472;

/// Deterministic payload for a uid: the first bytes carry the uid, the rest is a keyed stream, so a
/// delivered payload identifies the submission and every byte position is checked.
pub fn payload(uid: u32, len: usize) -> Box<[u8]> {
    let mut v = vec![0u8; len];
    let hdr = uid.to_le_bytes();
    for i in 0..len.min(4) {
        v[i] = hdr[i];
    }
    let mut x = (uid as u64).wrapping_mul(0x9E3779B97F4A7C15) ^ 0xABCDEF;
    let mut i = 4;
    while i < len {
        x ^= x << 13;
        x ^= x >> 7;
        x ^= x << 17;
        let b = x.to_le_bytes();
        for k in 0..8 {
            if i + k < len {
                v[i + k] = b[k];
            }
        }
        i += 8;
    }
    v.into_boxed_slice()
}
