//! Recording global allocator (C19).  Always installed; records only while a session has it
//! enabled.  Every allocation made while the program is inside a library call (and not inside one
//! of the harness's own callbacks) is tagged as owned by the library; every dealloc / realloc is
//! recorded with the layout the caller passed, so that MonAlloc can check the allocator contract
//! (same size and alignment as at allocation, exactly once) and that nothing the library allocated
//! is still live after its objects were dropped.

use std::alloc::{GlobalAlloc, Layout, System};
use std::sync::atomic::{AtomicBool, AtomicUsize, Ordering};

pub static ENABLED: AtomicBool = AtomicBool::new(false);
pub static IN_LIB: AtomicBool = AtomicBool::new(false);
pub static IN_CB: AtomicBool = AtomicBool::new(false);

#[derive(Clone, Copy)]
pub struct Rec {
    pub op: u8, // 1 alloc, 2 dealloc, 3 realloc
    pub lib: bool,
    pub ptr: usize,
    pub size: usize,
    pub align: usize,
    pub new_ptr: usize,
    pub new_size: usize,
}

const CAP: usize = 1 << 20;
static mut RING: [Rec; CAP] = [Rec { op: 0, lib: false, ptr: 0, size: 0, align: 0, new_ptr: 0, new_size: 0 }; CAP];
static LEN: AtomicUsize = AtomicUsize::new(0);
pub static OVERFLOW: AtomicBool = AtomicBool::new(false);

fn push(r: Rec) {
    let i = LEN.load(Ordering::Relaxed);
    if i >= CAP {
        OVERFLOW.store(true, Ordering::Relaxed);
        return;
    }
    unsafe {
        (*std::ptr::addr_of_mut!(RING))[i] = r;
    }
    LEN.store(i + 1, Ordering::Relaxed);
}

pub struct Recorder;

unsafe impl GlobalAlloc for Recorder {
    unsafe fn alloc(&self, layout: Layout) -> *mut u8 {
        let p = System.alloc(layout);
        if ENABLED.load(Ordering::Relaxed) {
            let lib = IN_LIB.load(Ordering::Relaxed) && !IN_CB.load(Ordering::Relaxed);
            push(Rec { op: 1, lib, ptr: p as usize, size: layout.size(), align: layout.align(), new_ptr: 0, new_size: 0 });
        }
        p
    }
    unsafe fn alloc_zeroed(&self, layout: Layout) -> *mut u8 {
        let p = System.alloc_zeroed(layout);
        if ENABLED.load(Ordering::Relaxed) {
            let lib = IN_LIB.load(Ordering::Relaxed) && !IN_CB.load(Ordering::Relaxed);
            push(Rec { op: 1, lib, ptr: p as usize, size: layout.size(), align: layout.align(), new_ptr: 0, new_size: 0 });
        }
        p
    }
    unsafe fn dealloc(&self, ptr: *mut u8, layout: Layout) {
        if ENABLED.load(Ordering::Relaxed) {
            push(Rec { op: 2, lib: false, ptr: ptr as usize, size: layout.size(), align: layout.align(), new_ptr: 0, new_size: 0 });
        }
        System.dealloc(ptr, layout)
    }
    unsafe fn realloc(&self, ptr: *mut u8, layout: Layout, new_size: usize) -> *mut u8 {
        let q = System.realloc(ptr, layout, new_size);
        if ENABLED.load(Ordering::Relaxed) {
            let lib = IN_LIB.load(Ordering::Relaxed) && !IN_CB.load(Ordering::Relaxed);
            push(Rec { op: 3, lib, ptr: ptr as usize, size: layout.size(), align: layout.align(), new_ptr: q as usize, new_size });
        }
        q
    }
}

/// Take the recorded events (recording is suspended while they are copied out).
pub fn drain() -> Vec<Rec> {
    let was = ENABLED.swap(false, Ordering::SeqCst);
    let n = LEN.load(Ordering::SeqCst);
    let mut v = Vec::with_capacity(n);
    unsafe {
        for i in 0..n {
            v.push((*std::ptr::addr_of!(RING))[i]);
        }
    }
    LEN.store(0, Ordering::SeqCst);
    ENABLED.store(was, Ordering::SeqCst);
    v
}
