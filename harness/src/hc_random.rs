//! Seeded natural-mode scenarios for the half-connection pair (public step()/flush() only, virtual
//! clock, TFRC and the credit bucket in the loop).

use crate::common::*;
use crate::hc::*;
use serde_json::json;
use uflow::SendMode;
use uflow::verif::Serialize;

#[derive(Clone, Copy, PartialEq)]
pub enum Profile {
    Mixed,    // loss / dup / reorder / corruption, then a fair tail
    Ideal,    // FIFO network with latency, no faults
    Blackout, // long blackouts, full windows, then probes
    Rate,     // backlog-heavy, logs Step lines (bucket monitor)
    Frag,     // sizes around fragment boundaries, small windows of frames in flight, heavy reorder/dup
    Stale,    // pauses long enough for sync frames, every sync frame copied and the copy delivered seconds later, after newer data
}

pub fn profile_from(s: &str) -> Profile {
    match s {
        "ideal" => Profile::Ideal,
        "blackout" => Profile::Blackout,
        "rate" => Profile::Rate,
        "frag" => Profile::Frag,
        "stale" => Profile::Stale,
        _ => Profile::Mixed,
    }
}

fn pick_len(r: &mut Rng, maxp: usize, prof: Profile) -> usize {
    let m = MAX_FRAGMENT_SIZE;
    if prof == Profile::Frag && r.chance(1, 8) {
        // many fragments: the per-fragment flag words of sender and receiver are 64 bits wide
        let k = *r.pick(&[31usize, 32, 33, 40, 63, 64, 65, 70, 127, 128, 130]);
        return (k * m + *r.pick(&[0usize, 1, 700])).min(maxp);
    }
    let v = match r.below(if prof == Profile::Frag { 6 } else { 10 }) {
        0 => r.below(4) as usize,                                     // 0..3 (ambiguous short payloads)
        1 => {
            // around k*1448
            let k = r.range(1, 4) as usize;
            (k * m + r.below(5) as usize).saturating_sub(2)
        }
        2 => r.range(4, 70) as usize,                                 // micro / small datagram encodings
        3 => r.range(200, 300) as usize,                              // small / large threshold
        4 => r.range(m as u64 + 1, 4 * m as u64) as usize,            // multi-fragment
        5 => *r.pick(&[m - 1, m, m + 1, 2 * m - 1, 2 * m, 2 * m + 1, 3 * m, 3 * m + 1, 63, 64, 255, 256]),
        6 => r.range(4, 1448) as usize,
        7 => r.range(4, 200) as usize,
        8 => r.range(4, 40) as usize,
        _ => if r.chance(1, 12) {
            // many fragments: the per-fragment flag words of sender and receiver are 64 bits wide
            let k = *r.pick(&[31usize, 32, 33, 40, 63, 64, 65, 70, 127, 128, 130]);
            k * m + *r.pick(&[0usize, 1, 700])
        } else {
            r.range(4, 20 * m as u64) as usize
        },
    };
    v.min(maxp)
}

fn pick_mode(r: &mut Rng, weights: [u64; 4]) -> SendMode {
    let tot: u64 = weights.iter().sum();
    let mut x = r.below(tot);
    for (i, w) in weights.iter().enumerate() {
        if x < *w {
            return [SendMode::TimeSensitive, SendMode::Unreliable, SendMode::Persistent, SendMode::Reliable][i];
        }
        x -= *w;
    }
    SendMode::Reliable
}

pub struct RunStats {
    pub sent: u64,
    pub delivered: u64,
    pub frames: u64,
    pub dropped: u64,
    pub dupd: u64,
    pub corrupted: u64,
    pub quiesced: bool,
    pub dead: bool,
}

pub fn run_random(tr: &mut Trace, run: u64, seed: u64, prof: Profile) -> RunStats {
    let mut r = Rng::new(seed);
    uflow_rand_seed(seed);

    // ---- configuration
    let pw = *r.pick(&[2u32, 4, 4, 8, 16, 64, 256, 4096]);
    let fw = if r.chance(1, 2) { pw } else { *r.pick(&[2u32, 4, 8, 16, 64, 4096]) };
    let near = |r: &mut Rng, modulus: u64, w: u32| -> u32 {
        match r.below(4) {
            0 => (modulus - 1 - r.below(3 * w as u64 + 1)) as u32, // within three windows below wrap
            1 => r.below(3) as u32,
            _ => r.below(modulus) as u32,
        }
    };
    let pbase = [near(&mut r, 1 << 20, pw), near(&mut r, 1 << 20, pw)];
    let fbase = [near(&mut r, 1 << 32, fw), near(&mut r, 1 << 32, fw)];
    // (exact multiples of the fragment size are a class of their own: rounding up must leave them alone)
    let alloc_choices = [3000usize, 6000, 20000, 100000, 1000000, 2 * 1448, 4 * 1448, 14 * 1448, 1448 * 100];
    let rx_alloc = [*r.pick(&alloc_choices), *r.pick(&alloc_choices)];
    let bw_choices: &[u32] = match prof {
        Profile::Rate => &[1472, 1600, 2500, 3000, 3600, 20500, 100000, 1000000, 2000000],
        _ => &[20000, 100000, 1000000, 2000000, 10000000],
    };
    let mut bw = [*r.pick(bw_choices), *r.pick(bw_choices)];
    // phased runs: see below (decided here because the phased rate runs prefer ceilings the controller actually reaches
    // within a run - the ceiling, not the controller's current rate, is what C13 bounds)
    let mut ph_rng = Rng::new(seed ^ 0x50A5_ED01);
    let phased = matches!(prof, Profile::Rate | Profile::Blackout | Profile::Mixed) && ph_rng.chance(if prof == Profile::Rate { 3 } else { 2 }, 6);
    if phased && prof == Profile::Rate {
        bw = [*ph_rng.pick(&[2500u32, 3600, 6000, 10000, 20500, 50000]), *ph_rng.pick(&[2500u32, 3600, 6000, 10000, 20500, 50000])];
    }
    let keepalive = if r.chance(1, 2) { Some(*r.pick(&[500u64, 5000])) } else { None };
    let cfg = PairCfg { pw, fw, pbase, fbase, rx_alloc, bw, keepalive };
    let mut p = Pair::new(cfg);
    p.log_probe = true;
    if prof == Profile::Frag && r.chance(1, 2) {
        // half of the fragmentation runs: every data frame may be followed by a disagreeing copy of one of its fragments
        p.tamper = *r.pick(&[10u64, 30, 60]);
        p.tamper_rng = seed ^ 0x7A3;
    }

    let nch = *r.pick(&[1u64, 2, 3, 8, 64]);
    let weights = *r.pick(&[[1u64, 1, 1, 1], [0, 0, 0, 1], [1, 3, 1, 1], [0, 1, 1, 2], [2, 1, 0, 1], [0, 0, 1, 1]]);
    let ideal = prof == Profile::Ideal;
    let (p_drop, p_dup, p_corrupt, jitter): (u64, u64, u64, u64) = match prof {
        Profile::Ideal => (0, 0, 0, 0),
        Profile::Rate => (*r.pick(&[0u64, 0, 5, 20]), 0, 0, *r.pick(&[0u64, 20])),
        Profile::Blackout => (*r.pick(&[0u64, 5]), 2, 0, 30),
        Profile::Frag => (*r.pick(&[0u64, 10, 30]), *r.pick(&[0u64, 20, 40]), *r.pick(&[0u64, 5]), *r.pick(&[0u64, 50, 300])),
        Profile::Mixed => (*r.pick(&[0u64, 5, 20, 40]), *r.pick(&[0u64, 5, 20]), *r.pick(&[0u64, 0, 5]), *r.pick(&[0u64, 10, 100])),
        Profile::Stale => (*r.pick(&[10u64, 25, 40]), 0, 0, *r.pick(&[0u64, 20])),
    };
    let latency = *r.pick(&[0u64, 1, 10, 40, 150, 500]);
    let cadence = if prof == Profile::Rate { *r.pick(&[1u64, 1, 1, 2, 5, 20, 50, 200]) } else { *r.pick(&[1u64, 5, 20, 20, 50, 200]) };
    let cadence = if prof == Profile::Stale { *r.pick(&[20u64, 50, 100]) } else { cadence };
    let rounds = match prof {
        Profile::Stale => r.range(200, 500),
        Profile::Rate => r.range(100, 600),
        Profile::Blackout => r.range(50, 400),
        _ => r.range(20, 300),
    };
    // phased runs (a third of the rate / blackout / mixed runs; a generator of their own): the round-trip time changes by
    // an order of magnitude or more a third of the way through, and the traffic goes heavy - light - heavy, so that estimates,
    // caps and credit built up under one regime meet the backlog of the next ("lasting change of the round-trip time")
    let (lat_first, lat_second) = if !phased { (latency, latency) } else if ph_rng.chance(2, 3) {
        (*ph_rng.pick(&[150u64, 400, 400, 1000]), *ph_rng.pick(&[0u64, 1, 3, 10]))
    } else {
        (*ph_rng.pick(&[0u64, 1, 10]), *ph_rng.pick(&[150u64, 400, 1000]))
    };
    let latency = if phased { lat_first.max(lat_second) } else { latency }; // what the quiescence rule waits for
    // in two thirds of the phased runs the first phase is moderate as well (no backlog is carried into the light phase, so
    // the credit can fill up under the first regime before the second one shrinks its cap)
    let moderate_first = phased && ph_rng.chance(2, 3);
    let lat = std::cell::Cell::new(lat_first);
    let stale_period = *r.pick(&[3000u64, 4500, 8000]);
    let stale_burst = *r.pick(&[100u64, 300, 600]);
    let send_burst = *r.pick(&[1u64, 2, 5, 20]);
    let send_prob = *r.pick(&[5u64, 20, 50, 90]);
    let both_dirs = r.chance(1, 2) || ideal;
    let lead_sweeps = (prof == Profile::Ideal || prof == Profile::Mixed) && r.chance(1, 4);
    let lazy_reader = r.chance(1, 6); // application that calls receive() rarely
    let log_steps = prof == Profile::Rate || std::env::var("UVH_LOG_STEPS").is_ok();

    tr.line(json!({"ev": "Reset", "run": run, "seed": seed as i64 & 0x3FFFFFFF, "driver": "hc-random", "profile": match prof {
        Profile::Mixed => "mixed", Profile::Ideal => "ideal", Profile::Blackout => "blackout", Profile::Rate => "rate", Profile::Frag => "frag", Profile::Stale => "stale" },
        "ideal": ideal, "honest": p.tamper == 0, "cfg": p.cfg_json(), "nch": nch, "latency": latency, "cadence": cadence,
        "ceil_a": p.cfg.bw[0], "ceil_b": p.cfg.bw[1], "phased": phased, "lat_first": lat_first, "lat_second": lat_second, "moderate_first": moderate_first}));

    let mut st = RunStats { sent: 0, delivered: 0, frames: 0, dropped: 0, dupd: 0, corrupted: 0, quiesced: false, dead: false };

    // blackout windows [t0, t1) per direction
    let mut blackouts: Vec<(u64, u64, usize)> = Vec::new();
    if prof == Profile::Rate && phased && ph_rng.chance(1, 2) {
        // feedback blackouts: the acknowledgements (or everything) stop for a while although the sender has a backlog
        for _ in 0..ph_rng.range(1, 3) {
            let t0 = ph_rng.below(rounds * cadence);
            blackouts.push((t0, t0 + *ph_rng.pick(&[300u64, 1000, 2500, 6000]), *ph_rng.pick(&[1usize, 1, 0, 2])));
        }
    }
    if prof == Profile::Blackout {
        let n = r.range(1, 3);
        for _ in 0..n {
            let t0 = r.below(rounds * cadence);
            let len = *r.pick(&[300u64, 2500, 5000, 30000, 70000]);
            let d = r.below(3) as usize; // 0: a->b, 1: b->a, 2: both
            blackouts.push((t0, t0 + len, d));
        }
    }

    let maxp = |e: usize, p: &Pair| -> usize { p.cfg.rx_alloc[1 - e].min(200000) };

    let mut last_due = [0u64; 2]; // FIFO in ideal mode
    // late copies ("delay" in the quantifiers of C01 / C02): in a third of the faulty runs a frame may get one more copy
    // that arrives seconds later - after newer frames of every kind - and sync frames, whose stale ids must do no harm,
    // get one most of the time.  Drawn from a generator of its own, so that the other choices of a run do not depend on it.
    let mut late_rng = Rng::new(seed ^ 0x1A7E_C0B1);
    let late_mode = (matches!(prof, Profile::Mixed | Profile::Blackout | Profile::Frag) && late_rng.chance(1, 3)) || prof == Profile::Stale;
    let late_pct = *late_rng.pick(&[2u64, 5, 10]);
    let mut visit = |p: &mut Pair, tr: &mut Trace, r: &mut Rng, e: usize, faults: bool, st: &mut RunStats, receive: bool| {
        // Client/Server order: flush, handle frames, step, receive
        let frames = p.flush(tr, e, None);
        let extra = if r.chance(1, 10) { p.flush(tr, e, None) } else { Vec::new() };
        for (idx, bytes) in frames.into_iter().chain(extra.into_iter()) {
            st.frames += 1;
            let now = p.t_ms();
            let dir = e;
            let mut in_blackout = false;
            for (t0, t1, d) in blackouts.iter() {
                if faults && now >= *t0 && now < *t1 && (*d == 2 || *d == dir) {
                    in_blackout = true;
                }
            }
            if in_blackout || (faults && r.chance(p_drop, 100)) {
                st.dropped += 1;
                tr.line(json!({"ev": "Net", "dir": dir, "idx": idx, "fate": "drop"}));
                continue;
            }
            let copies = if faults && r.chance(p_dup, 100) { 2 } else { 1 };
            if copies == 2 {
                st.dupd += 1;
            }
            for c in 0..copies {
                let mut b = bytes.clone();
                let mut fate = if c == 0 { "deliver" } else { "dup" };
                if faults && r.chance(p_corrupt, 100) {
                    let nb = r.range(1, 4);
                    for _ in 0..nb {
                        let bit = r.below(b.len() as u64 * 8) as usize;
                        b[bit / 8] ^= 1 << (bit % 8);
                    }
                    fate = "flip";
                    st.corrupted += 1;
                }
                let mut due = now + lat.get() + if faults && jitter > 0 { r.below(jitter + 1) } else { 0 };
                if !faults || ideal {
                    // fair / ideal network: FIFO per direction
                    due = due.max(last_due[dir]);
                    last_due[dir] = due;
                }
                tr.line(json!({"ev": "Net", "dir": dir, "idx": idx, "fate": fate, "due": due}));
                p.launch(dir, idx, b, due);
            }
            if faults && late_mode {
                let is_sync = matches!(uflow::verif::Frame::read(&bytes), Some(uflow::verif::Frame::SyncFrame(_)));
                if late_rng.chance(if is_sync { if prof == Profile::Stale { 100 } else { 60 } } else if prof == Profile::Stale { 0 } else { late_pct }, 100) {
                    let due = now + lat.get() + if prof == Profile::Stale { (stale_period - now % stale_period) + late_rng.range(20, stale_burst + 500) } else { *late_rng.pick(&[600u64, 2500, 2500, 7000, 30000]) };
                    st.dupd += 1;
                    tr.line(json!({"ev": "Net", "dir": dir, "idx": idx, "fate": "late", "due": due}));
                    p.launch(dir, idx, bytes.clone(), due);
                }
            }
        }
        p.deliver_due(tr, e);
        p.step(tr, e, log_steps);
        if receive {
            st.delivered += p.receive(tr, e).len() as u64;
        }
    };

    // ---- fault phase
    for round in 0..rounds {
        if p.dead {
            break;
        }
        let dt = match r.below(20) {
            0 => 0,
            1 => cadence * 10,
            2 => r.below(3),
            _ => cadence,
        };
        // (the light phase of a phased run lasts several of the earlier round trips, whatever the cadence)
        let dt = if phased && ((round >= rounds / 3 && round < 2 * rounds / 3) || (moderate_first && round < rounds / 3)) { dt.max(lat_first.max(lat_second) / 8) } else { dt };
        advance_ms(dt);
        let order = if r.chance(1, 2) { [0usize, 1] } else { [1, 0] };
        for &e in order.iter() {
            if p.dead {
                break;
            }
            // stale profile: short bursts of packets of all modes, then silence for longer than the sync time-out (2 s / RTO)
            let stale_quiet = prof == Profile::Stale && (p.t_ms() % stale_period) >= stale_burst;
            let light = phased && ((round >= rounds / 3 && round < 2 * rounds / 3) || (moderate_first && round < rounds / 3));
            if phased && round == rounds / 3 {
                lat.set(lat_second);
            }
            if (e == 0 || both_dirs) && light {
                // light phase: now and then one small packet, never a backlog
                if ph_rng.chance(1, 4) {
                    let len = ph_rng.range(4, 200) as usize;
                    p.send(tr, e, ph_rng.below(nch) as u8, *ph_rng.pick(&[SendMode::Unreliable, SendMode::Reliable]), len.min(maxp(e, &p)));
                    st.sent += 1;
                }
            } else if stale_quiet {
            } else if (e == 0 || both_dirs) && r.chance(if phased { 90 } else { send_prob }, 100) {
                let n = r.range(1, send_burst);
                for _ in 0..n {
                    let len = pick_len(&mut r, maxp(e, &p), prof);
                    let ch = r.below(nch) as u8;
                    let mode = pick_mode(&mut r, weights);
                    p.send(tr, e, ch, mode, len);
                    st.sent += 1;
                }
                // lead sweep: one Reliable packet followed by a long run of tiny packets of the other modes, so that the
                // distance to the latest Reliable packet (the parent leads in the datagram headers) crosses the limits of
                // the header encodings (127 / 128 for the window lead, 255 / 256 for the channel lead of the 6-byte header)
                if lead_sweeps && pw >= 256 && r.chance(1, 12) {
                    let ch = r.below(nch) as u8;
                    p.send(tr, e, ch, SendMode::Reliable, r.below(40) as usize);
                    st.sent += 1;
                    let k = *r.pick(&[120u64, 126, 127, 128, 129, 135, 254, 255, 256, 257, 262]);
                    let same_ch = r.chance(2, 3);
                    for _ in 0..k {
                        let c = if same_ch { ch } else { r.below(nch) as u8 };
                        let m = *r.pick(&[SendMode::Unreliable, SendMode::Unreliable, SendMode::Persistent]);
                        p.send(tr, e, c, m, r.below(60) as usize);
                        st.sent += 1;
                    }
                }
            }
            let receive = !lazy_reader || round % 17 == 0;
            visit(&mut p, tr, &mut r, e, true, &mut st, receive);
        }
    }

    // ---- probes (C11): one packet of every mode per sending direction after the fault phase
    let mut probes: Vec<u32> = Vec::new();
    if !p.dead && prof == Profile::Blackout {
        tr.line(json!({"ev": "FaultsEnd", "t": p.t_ms()}));
        // give the network time to drain the blackout, then submit probes right before a flush
        for e in 0..2 {
            if e == 0 || both_dirs {
                for m in [SendMode::TimeSensitive, SendMode::Unreliable, SendMode::Persistent, SendMode::Reliable] {
                    let uid = p.send(tr, e, r.below(nch) as u8, m, r.range(4, 3000).min(maxp(e, &p) as u64) as usize);
                    probes.push(uid);
                    st.sent += 1;
                }
            }
        }
        tr.line(json!({"ev": "Probes", "uids": probes}));
    } else if !p.dead {
        tr.line(json!({"ev": "FaultsEnd", "t": p.t_ms()}));
    }

    let tampered_run = p.tamper > 0;
    p.tamper = 0; // the hostile copies belong to the fault phase
    // ---- fair tail: no faults, FIFO, both ends stepped until quiescent or the horizon
    let backlog: usize = p.ep[0].last_bufsize + p.ep[1].last_bufsize;
    // a forged frame may use a frame id the genuine sender has not reached yet, which can wedge that direction for
    // good (an on-path forger is outside the liveness properties): such runs get a short tail and are judged on
    // payload integrity only
    let horizon_ms: u64 = if tampered_run { 120_000 } else { 3_600_000 + (backlog as u64 * 1000) / 23 };
    let tail_start = p.t_ms();
    p.log_probe = false;
    let mut cut = false;
    let mut iter: u64 = 0;
    let mut probe_bytes: u64 = 0;
    for phase in 0..2 {
    if phase == 1 {
        // ---- capacity probe: once everything has been acknowledged the peer's whole receive allocation is available
        // again, so one Reliable packet as large as that allocation must go through (sender and receiver accounting
        // have both returned to zero); then a second fair tail
        if p.dead || !st.quiesced || cut || tampered_run {
            break;
        }
        st.quiesced = false;
        let mut any = false;
        for e in 0..2usize {
            let len = p.cfg.rx_alloc[1 - e];
            if (e == 0 || both_dirs) && (len <= 150_000 || r.chance(1, 4)) {
                p.send(tr, e, r.below(nch) as u8, SendMode::Reliable, len);
                st.sent += 1;
                any = true;
                probe_bytes += len as u64;
            }
        }
        if !any {
            st.quiesced = true;
            break;
        }
    }
    let phase_start = p.t_ms();
    let mut quiet_rounds = 0;
    let mut quiet_since: Option<u64> = None;
    let tail_lines0 = tr.lines;
    while !p.dead {
        let el = p.t_ms() - phase_start;
        if el > horizon_ms + (probe_bytes * 1000) / 23 {
            break;
        }
        if tr.lines - tail_lines0 > 40_000 && !tr.muted {
            // trace budget of one run exhausted before the horizon: nothing more is logged (the monitors that follow the
            // run line by line do not judge it at rest: `cut`), but the run goes on in silence until it comes to rest or
            // reaches the horizon - a connection that chatters for ever without finishing is a stall all the same
            cut = true;
            tr.muted = true;
        }
        // cadence grows so that an hour of virtual time stays cheap, but never exceeds 1 s
        let dt = if el < 30_000 { 20 } else if el < 300_000 { 100 } else { 1000 };
        advance_ms(dt);
        for e in 0..2 {
            visit(&mut p, tr, &mut r, e, false, &mut st, true);
        }
        iter += 1;
        let idle = |p: &Pair, e: usize| !p.ep[e].last_pending && p.ep[e].last_bufsize == 0;
        if idle(&p, 0) && idle(&p, 1) {
            // stay idle for longer than a round trip (keep-alive traffic may go on for ever), so that
            // frames still in flight are handled and a final receive() has run
            if quiet_since.is_none() {
                quiet_since = Some(p.t_ms());
            }
            quiet_rounds += 1;
            if quiet_rounds >= 3 && p.t_ms() - quiet_since.unwrap() >= 2 * latency + 200 {
                st.quiesced = true;
                break;
            }
        } else {
            quiet_rounds = 0;
            quiet_since = None;
        }
        let _ = iter;
    }
    }
    let stalled = tr.muted && !st.quiesced && !p.dead;
    tr.muted = false;
    if !p.dead {
        for e in 0..2 {
            p.log_probe = true;
            if !cut {
                // (after a silent continuation the monitors' picture of the run is that of the moment it was cut: no probe)
                p.probe(tr, e);
            }
            let hc = p.ep[e].hc.as_ref().unwrap();
            let s = hc.verif_snapshot();
            tr.line(json!({"ev": "Quiesced", "ep": p.ep[e].name, "pending": p.ep[e].last_pending, "bufsize": p.ep[e].last_bufsize.min(2_000_000_000),
                "t": p.t_ms(), "tail_ms": p.t_ms() - tail_start, "horizon_ms": horizon_ms.min(2_000_000_000), "reached": st.quiesced && !cut, "cut": cut, "stalled": stalled,
                "rate": s.rate.send_rate, "rmode": s.rate.mode, "credit": s.flush_alloc.clamp(-2_000_000_000, 2_000_000_000), "rx_alloc": s.rx_alloc, "honest": !tampered_run}));
        }
    }
    tr.line(json!({"ev": "End", "run": run, "dead": p.dead, "calls": p.calls}));
    st.dead = p.dead;
    st
}

pub fn uflow_rand_seed(seed: u64) {
    rand::verif_seed(seed ^ 0xD1B54A32D192ED03);
}
