//! Allocator-contract sessions (C19): exercise the paths that allocate and free packet memory --
//! multi-fragment packets whose size is not a multiple of the fragment size, delivered, skipped,
//! passed over while partly assembled, still in flight when the connection is dropped -- and log
//! every heap operation on blocks the library allocated.

use crate::alloc::{self, Rec};
use crate::common::*;
use crate::hc::*;
use crate::sess::*;
use serde_json::json;
use std::collections::HashMap;
use std::sync::atomic::Ordering;
use uflow::SendMode;

struct Renamer {
    ids: HashMap<usize, u64>,
    next: u64,
}

impl Renamer {
    fn emit(&mut self, tr: &mut Trace, recs: Vec<Rec>) {
        for r in recs.into_iter() {
            match r.op {
                1 => {
                    if r.lib {
                        self.next += 1;
                        self.ids.insert(r.ptr, self.next);
                        tr.line(json!({"ev": "A", "p": self.next, "size": r.size.min(2_000_000_000), "align": r.align}));
                    } else {
                        // the address may be reused by the harness after the library freed it
                        self.ids.remove(&r.ptr);
                    }
                }
                2 => {
                    if let Some(id) = self.ids.remove(&r.ptr) {
                        tr.line(json!({"ev": "D", "p": id, "size": r.size.min(2_000_000_000), "align": r.align}));
                    }
                }
                3 => {
                    if let Some(id) = self.ids.remove(&r.ptr) {
                        self.next += 1;
                        self.ids.insert(r.new_ptr, self.next);
                        tr.line(json!({"ev": "R", "p": id, "size": r.size.min(2_000_000_000), "align": r.align, "q": self.next, "new_size": r.new_size.min(2_000_000_000)}));
                    } else if r.lib {
                        self.next += 1;
                        self.ids.insert(r.new_ptr, self.next);
                        tr.line(json!({"ev": "A", "p": self.next, "size": r.new_size.min(2_000_000_000), "align": r.align}));
                    }
                }
                _ => {}
            }
        }
    }
}

pub fn run_alloc(tr: &mut Trace, run: u64, seed: u64) {
    let mut r = Rng::new(seed);
    crate::hc_random::uflow_rand_seed(seed);
    let mut null = Trace::create("/dev/null");
    let session_level = r.chance(1, 3);
    tr.line(json!({"ev": "Reset", "run": run, "seed": seed as i64 & 0x3FFFFFFF, "driver": "alloc", "profile": if session_level { "session" } else { "pair" }}));
    let mut ren = Renamer { ids: HashMap::new(), next: 0 };
    alloc::ENABLED.store(true, Ordering::SeqCst);
    if !session_level {
        let pw = *r.pick(&[4u32, 16, 4096]);
        let cfg = PairCfg { pw, fw: *r.pick(&[8u32, 4096]), pbase: [r.next() as u32 & PID_MASK, 0xFFFFE], fbase: [r.next() as u32, u32::MAX - 2],
            rx_alloc: [*r.pick(&[20000usize, 1000000]), *r.pick(&[20000usize, 1000000])], bw: [2_000_000, 2_000_000], keepalive: None };
        let hl = "{}".to_string();
        let mut p = guarded(&hl, || Pair::new(cfg)).ok().unwrap();
        p.log_probe = false;
        let rounds = r.range(20, 150);
        let p_drop = *r.pick(&[0u64, 20, 50]);
        let abort_mid = r.chance(1, 3);
        let mut held: Vec<Box<[u8]>> = Vec::new();
        for round in 0..rounds {
            if p.dead {
                break;
            }
            advance_ms(*r.pick(&[1u64, 20, 100]));
            for e in 0..2 {
                if r.chance(40, 100) {
                    let len = match r.below(6) {
                        0 => r.range(1449, 1448 * 6) as usize,        // multi-fragment, not a multiple
                        1 => 1448 * r.range(1, 4) as usize,           // exact multiples
                        2 => {
                            // just below and just above whole fragments (allocator size classes: 1..64 bytes either side)
                            let d = *r.pick(&[1usize, 2, 7, 8, 9, 15, 16, 17, 31, 32, 33, 63, 64, 65]);
                            let k = r.range(1, 5) as usize;
                            if r.chance(1, 2) { 1448 * k + d } else { 1448 * (k + 1) - d }
                        }
                        3 => 0,
                        _ => r.range(1, 1448) as usize,
                    }.min(p.cfg.rx_alloc[1 - e]);
                    let mode = *r.pick(&[SendMode::TimeSensitive, SendMode::Unreliable, SendMode::Unreliable, SendMode::Persistent, SendMode::Reliable]);
                    p.send(&mut null, e, r.below(3) as u8, mode, len);
                }
                let frames = p.flush(&mut null, e, None);
                for (idx, bytes) in frames.into_iter() {
                    if r.chance(p_drop, 100) {
                        continue;
                    }
                    let due = p.t_ms() + r.below(60);
                    if r.chance(1, 10) {
                        p.launch(e, idx, bytes.clone(), due + r.below(100));
                    }
                    p.launch(e, idx, bytes, due);
                }
                p.deliver_due(&mut null, e);
                p.step(&mut null, e, false);
                p.receive(&mut null, e);
            }
            ren.emit(tr, alloc::drain());
            if abort_mid && round > rounds / 2 {
                break; // connection dropped mid-transfer
            }
            let _ = &mut held;
        }
        tr.line(json!({"ev": "Phase", "what": "drop-connections", "dead": p.dead}));
        let _ = guarded("{}", move || drop(p));
        ren.emit(tr, alloc::drain());
    } else {
        let mut scfg = uflow::server::Config::default();
        scfg.endpoint_config.active_timeout_ms = 5000;
        let hl = "{}".to_string();
        let mut s = guarded(&hl, || Sess::new(scfg)).ok().unwrap();
        let n = r.range(1, 2) as usize;
        for _ in 0..n {
            let mut c = uflow::EndpointConfig::default();
            c.active_timeout_ms = 5000;
            s.add_slot(c);
        }
        for i in 0..n {
            s.connect(&mut null, i);
        }
        let rounds = r.range(20, 120);
        let p_drop = *r.pick(&[0u64, 20]);
        for round in 0..rounds {
            advance_ms(20);
            let held = std::mem::take(&mut s.held);
            for h in held.into_iter() {
                if !r.chance(p_drop, 100) {
                    s.forward(&mut null, &h, "deliver");
                }
            }
            for i in 0..n {
                if round > 3 && r.chance(40, 100) {
                    let len = *r.pick(&[10usize, 1449, 4000, 7001, 1448 * 3, 1448 * 2 - 1, 1448 * 3 - 8, 1448 * 2 - 15, 1448 * 4 - 16, 1448 * 2 - 33]);
                    s.app_send(&mut null, r.chance(1, 2), i, r.below(3) as usize, *r.pick(&[SendMode::Unreliable, SendMode::Reliable, SendMode::Persistent]), len);
                }
                if r.chance(1, 80) {
                    s.app_disconnect(&mut null, r.chance(1, 2), i, r.chance(1, 2));
                }
                if r.chance(1, 150) {
                    s.app_drop(&mut null, i);
                }
            }
            s.step_server(&mut null);
            for i in 0..n {
                s.step_client(&mut null, i);
            }
            ren.emit(tr, alloc::drain());
        }
        tr.line(json!({"ev": "Phase", "what": "drop-client-and-server", "dead": s.dead}));
        let _ = guarded("{}", move || drop(s));
        ren.emit(tr, alloc::drain());
    }
    alloc::ENABLED.store(false, Ordering::SeqCst);
    ren.emit(tr, alloc::drain());
    tr.line(json!({"ev": "Teardown", "live": ren.ids.len(), "overflow": alloc::OVERFLOW.load(Ordering::SeqCst)}));
    tr.line(json!({"ev": "End", "run": run, "dead": false, "calls": 0}));
}
