//! Hostile-peer scenarios for the half-connection pair: a genuine exchange between two real
//! HalfConnections interleaved with CRC-valid frames whose fields are drawn from the value classes
//! cut by every guard in the code (DESIGN.md Appendix D), uniformly random frames, random bytes and
//! mutations of genuine frames.  Judged by MonRobust (C03) and MonBuffer (C06, receiver half).

use crate::common::*;
use crate::hc::*;
use serde_json::json;
use uflow::verif as uv;
use uflow::verif::Serialize;
use uflow::SendMode;

fn fix_crc(bytes: &mut Vec<u8>) {
    let n = bytes.len();
    if n < 5 {
        return;
    }
    let crc = uv::crc_compute(&bytes[..n - 4]);
    bytes[n - 4] = (crc >> 24) as u8;
    bytes[n - 3] = (crc >> 16) as u8;
    bytes[n - 2] = (crc >> 8) as u8;
    bytes[n - 1] = crc as u8;
}

fn write_frame(f: &uv::Frame) -> Option<Box<[u8]>> {
    // Frame::write has debug assertions on values that cannot be put on the wire; those are the
    // harness's mistake, not the library's, so such frames are skipped.
    std::panic::catch_unwind(std::panic::AssertUnwindSafe(|| f.write())).ok()
}

/// A data frame built around the victim's receive state.
fn forge_data(r: &mut Rng, s: &uv::VerifSnapshot, cfg: &PairCfg, e: usize) -> uv::Frame {
    let fw = cfg.fw;
    let pw = cfg.pw;
    let fid_off: i64 = *r.pick(&[-1i64, 0, 0, 1, 2, fw as i64 - 2, fw as i64 - 1, fw as i64, fw as i64 + 1, 1 << 20, 1 << 31]);
    let fid = (s.rf_base as i64).wrapping_add(fid_off) as u32;
    let ndg = *r.pick(&[0usize, 1, 1, 1, 2, 3, 8]);
    let mut dgs = Vec::new();
    let span = pid_sub(s.rx_end, s.rx_base) as i64;
    for _ in 0..ndg {
        let off: i64 = *r.pick(&[-1i64, 0, 0, 1, 1, 2, span, span + 1, pw as i64 / 2, pw as i64 - 1, pw as i64, pw as i64 + 1, 0x80000]);
        let pid = pid_add(s.rx_base, (off & 0xFFFFF) as u32);
        let k = r.range(1, 6) as u16;
        let (wpl, cpl): (u16, u16) = match r.below(9) {
            0 | 1 => (0, 0),
            2 => (k, 0),
            3 => (k, k),
            4 => (0, k),        // invalid
            5 => (k + 1, k),    // invalid (cpl < wpl)
            6 => (1, 1),
            7 => (off.max(0) as u16 + 1, off.max(0) as u16 + 1), // parent just behind the base
            _ => (r.below(65536) as u16, r.below(65536) as u16),
        };
        let limit_frags = ((cfg.rx_alloc[e] + MAX_FRAGMENT_SIZE - 1) / MAX_FRAGMENT_SIZE) as u16;
        let (frag, last, len): (u16, u16, usize) = match r.below(12) {
            0 | 1 | 2 => (0, 0, r.below(1449) as usize),
            3 => (0, 0, *r.pick(&[0usize, 0, 1449, 1458])),     // empty; longer than a fragment (fits a frame, not a fragment)
            4 => (*r.pick(&[0u16, 0, 1]), 1, *r.pick(&[1448usize, 1448, 1449, 1458])),
            5 => (1, 1, r.below(1449) as usize),
            6 => (2, 1, 10),                       // frag > last (invalid)
            7 => (0, 2, 100),                      // non-final fragment with short length (invalid)
            8 => (0, limit_frags.saturating_sub(1).max(1), 1448), // exactly the allocation
            9 => (0, limit_frags.max(1), 1448),    // one fragment over the allocation (placeholder packet)
            10 => (0, 65535, 1448),
            _ => (r.below(4) as u16, r.below(4) as u16, *r.pick(&[0usize, 1, 1447, 1448])),
        };
        let ch = match r.below(8) { 0 => 63u8, 1 => r.below(64) as u8, _ => r.below(3) as u8 };
        dgs.push(uv::Datagram { sequence_id: pid, channel_id: ch, window_parent_lead: wpl, channel_parent_lead: cpl,
            fragment_id: frag, fragment_id_last: last, data: vec![0xAB; len].into_boxed_slice() });
        // keep the frame within 1472 bytes
        let sz: usize = dgs.iter().map(|d| 14 + d.data.len()).sum();
        if sz > 1400 {
            if dgs.len() > 1 { dgs.pop(); }
            break;
        }
    }
    uv::Frame::DataFrame(uv::DataFrame { sequence_id: fid, nonce: r.chance(1, 2), datagrams: dgs })
}

fn forge_ack(r: &mut Rng, s: &uv::VerifSnapshot, cfg: &PairCfg) -> uv::Frame {
    let span_f = s.f_next.wrapping_sub(s.f_win_base) as i64;
    let fb_off: i64 = *r.pick(&[0i64, 0, 1, span_f, span_f + 1, -1, 1 << 20, 1 << 31]);
    let fbase = (s.f_win_base as i64).wrapping_add(fb_off) as u32;
    let span_p = pid_sub(s.tx_next, s.tx_base) as i64;
    let pbase: u32 = match r.below(10) {
        0 | 1 => s.tx_base,
        2 => pid_add(s.tx_base, 1),
        3 => pid_add(s.tx_base, (span_p.max(0)) as u32),
        4 => pid_add(s.tx_base, (span_p + 1) as u32),
        5 => pid_add(s.tx_base, 0x80000),
        6 => pid_sub(s.tx_base, 1),
        7 => s.tx_base | 0x100000,                 // bits above 2^20 set
        8 => pid_add(s.tx_base, 1) | 0xFFF00000,
        _ => r.next() as u32,
    };
    let ng = *r.pick(&[0usize, 1, 1, 2, 5, 161]);
    let log_len = s.f_next.wrapping_sub(s.f_log_base) as i64;
    let mut groups = Vec::new();
    for _ in 0..ng {
        let off: i64 = *r.pick(&[0i64, 0, 1, log_len - 1, log_len, log_len + 1, -1, -32, 1 << 30]);
        let base = (s.f_log_base as i64).wrapping_add(off) as u32;
        let bits = *r.pick(&[0u32, 1, 1, 3, 0x80000000, 0xFFFFFFFF, 0x00010001]) | if r.chance(1, 4) { r.next() as u32 } else { 0 };
        if r.chance(1, 2) {
            // structured group: the base lies up to 33 ids before the log (or inside it); bits are set only at
            // positions whose frame is in the log (a random subset, the lowest or the highest such position), the
            // positions before the log stay clear; sometimes one position outside the log is set as well
            let lo: i64 = *r.pick(&[-33i64, -32, -31, -8, -2, -1, -1, 0, 1, 2]);
            let base = (s.f_log_base as i64).wrapping_add(lo) as u32;
            let inlog: Vec<u32> = (0u32..32).filter(|i| { let d = (lo + *i as i64) as i64; d >= 0 && d < log_len }).collect();
            let mut bits = 0u32;
            if !inlog.is_empty() {
                match r.below(4) {
                    0 => bits |= 1 << inlog[0],
                    1 => bits |= 1 << inlog[inlog.len() - 1],
                    2 => for i in inlog.iter() { bits |= 1 << *i; },
                    _ => for i in inlog.iter() { if r.chance(1, 2) { bits |= 1 << *i; } },
                }
            }
            if r.chance(1, 5) {
                bits |= 1 << r.below(32);
            }
            groups.push(uv::AckGroup { base_id: base, bitfield: bits, nonce: r.chance(1, 2) });
            continue;
        }
        groups.push(uv::AckGroup { base_id: base, bitfield: bits, nonce: r.chance(1, 2) });
    }
    let _ = cfg;
    uv::Frame::AckFrame(uv::AckFrame { frame_window_base_id: fbase, packet_window_base_id: pbase, frame_acks: groups })
}

fn forge_sync(r: &mut Rng, s: &uv::VerifSnapshot, cfg: &PairCfg) -> uv::Frame {
    let fw = cfg.fw as i64;
    let pw = cfg.pw as i64;
    let nfid = if r.chance(3, 4) {
        let off: i64 = *r.pick(&[0i64, 1, fw - 1, fw, fw + 1, -1, 1 << 31]);
        Some((s.rf_base as i64).wrapping_add(off) as u32)
    } else {
        None
    };
    let span = pid_sub(s.rx_end, s.rx_base) as i64;
    let npid = if r.chance(3, 4) {
        Some(match r.below(9) {
            0 => s.rx_base,
            1 => pid_add(s.rx_base, 1),
            2 => pid_add(s.rx_base, span.max(0) as u32),
            3 => pid_add(s.rx_base, (span + 1) as u32),
            4 => pid_add(s.rx_base, pw as u32),
            5 => pid_add(s.rx_base, pw as u32 + 1),
            6 => s.rx_base | 0x100000,             // bits above 2^20 set
            7 => pid_add(s.rx_base, 2) | 0xABC00000,
            _ => r.next() as u32,
        })
    } else {
        None
    };
    uv::Frame::SyncFrame(uv::SyncFrame { next_frame_id: nfid, next_packet_id: npid })
}

fn random_frame(r: &mut Rng) -> uv::Frame {
    match r.below(3) {
        0 => {
            let n = r.below(4) as usize;
            let mut dgs = Vec::new();
            for _ in 0..n {
                let last = if r.chance(1, 2) { 0 } else { r.next() as u16 };
                let frag = if last == 0 { 0 } else { r.next() as u16 };
                dgs.push(uv::Datagram { sequence_id: (r.next() as u32) & PID_MASK, channel_id: r.below(64) as u8,
                    window_parent_lead: r.next() as u16, channel_parent_lead: r.next() as u16, fragment_id: frag, fragment_id_last: last,
                    data: vec![r.next() as u8; r.below(300) as usize].into_boxed_slice() });
            }
            uv::Frame::DataFrame(uv::DataFrame { sequence_id: r.next() as u32, nonce: r.chance(1, 2), datagrams: dgs })
        }
        1 => {
            let n = r.below(6) as usize;
            uv::Frame::AckFrame(uv::AckFrame { frame_window_base_id: r.next() as u32, packet_window_base_id: r.next() as u32,
                frame_acks: (0..n).map(|_| uv::AckGroup { base_id: r.next() as u32, bitfield: r.next() as u32, nonce: r.chance(1, 2) }).collect() })
        }
        _ => uv::Frame::SyncFrame(uv::SyncFrame {
            next_frame_id: if r.chance(1, 2) { Some(r.next() as u32) } else { None },
            next_packet_id: if r.chance(1, 2) { Some(r.next() as u32) } else { None } }),
    }
}

pub struct HostileStats {
    pub injected: u64,
    pub dead: bool,
}

pub fn run_hostile(tr: &mut Trace, run: u64, seed: u64, log_steps: bool) -> HostileStats {
    let mut r = Rng::new(seed);
    crate::hc_random::uflow_rand_seed(seed);
    let pw = *r.pick(&[2u32, 4, 8, 16, 64, 4096]);
    let fw = *r.pick(&[2u32, 4, 8, 16, 64, 256, 4096]);
    let pbase = [(r.next() as u32) & PID_MASK, if r.chance(1, 2) { 0xFFFFF - r.below(3 * pw as u64) as u32 } else { r.next() as u32 & PID_MASK }];
    let fbase = [r.next() as u32, if r.chance(1, 2) { u32::MAX - r.below(3 * fw as u64) as u32 } else { r.next() as u32 }];
    let rx_alloc = [*r.pick(&[3000usize, 10000, 1000000]), *r.pick(&[3000usize, 10000, 1000000])];
    let bw = [*r.pick(&[3000u32, 100000, 2000000]), *r.pick(&[3000u32, 100000, 2000000])];
    let cfg = PairCfg { pw, fw, pbase, fbase, rx_alloc, bw, keepalive: if r.chance(1, 2) { Some(500) } else { None } };
    let mut p = Pair::new(cfg.clone());
    p.log_probe = false;
    let rounds = r.range(30, 200);
    let cadence = *r.pick(&[0u64, 1, 20, 20, 200, 2000]);
    let inject_prob = *r.pick(&[10u64, 30, 60, 100]);
    let genuine = r.chance(3, 4); // whether b is an honest sender at all
    let flood = r.chance(1, 2);
    let kind_w = *r.pick(&[[3u64, 3, 3, 1, 1, 1], [1, 0, 0, 0, 0, 0], [0, 1, 0, 0, 0, 0], [0, 0, 1, 0, 0, 0], [1, 1, 1, 3, 3, 3]]);
    tr.line(json!({"ev": "Reset", "run": run, "seed": seed as i64 & 0x3FFFFFFF, "driver": "hc-hostile", "profile": "hostile", "ideal": false,
        "cfg": p.cfg_json(), "ceil_a": cfg.bw[0], "ceil_b": cfg.bw[1], "cadence": cadence}));
    let mut injected = 0u64;
    let mut genuine_frames: Vec<Box<[u8]>> = Vec::new();
    for _round in 0..rounds {
        if p.dead {
            break;
        }
        advance_ms(match r.below(10) { 0 => 0, 1 => cadence * 10, _ => cadence });
        for e in [0usize, 1] {
            if p.dead {
                break;
            }
            // honest traffic in both directions
            if (genuine || e == 0) && r.chance(40, 100) {
                let maxp = p.cfg.rx_alloc[1 - e].min(8000);
                let len = (*r.pick(&[0usize, 10, 100, 1448, 1449, 3000, 6000])).min(maxp);
                let mode = *r.pick(&[SendMode::TimeSensitive, SendMode::Unreliable, SendMode::Persistent, SendMode::Reliable]);
                p.send(tr, e, r.below(3) as u8, mode, len);
            }
            let frames = p.flush(tr, e, None);
            for (idx, bytes) in frames.into_iter() {
                if genuine_frames.len() < 64 {
                    genuine_frames.push(bytes.clone());
                }
                if r.chance(85, 100) {
                    let due = p.t_ms() + r.below(30);
                    p.launch(e, idx, bytes, due);
                }
            }
            p.deliver_due(tr, e);
            // hostile input for endpoint e
            if r.chance(inject_prob, 100) {
                let n = r.range(1, 4);
                for _ in 0..n {
                    if p.dead {
                        break;
                    }
                    let s = p.ep[e].hc.as_ref().unwrap().verif_snapshot();
                    let tot: u64 = kind_w.iter().sum();
                    let mut x = r.below(tot);
                    let mut k = 0;
                    for (i, w) in kind_w.iter().enumerate() {
                        if x < *w { k = i; break; }
                        x -= *w;
                    }
                    injected += 1;
                    match k {
                        0 => { let f = forge_data(&mut r, &s, &cfg, e); if let Some(b) = write_frame(&f) { p.handle_bytes(tr, e, &b, json!({"forged": "data-class"})); } }
                        1 => { let f = forge_ack(&mut r, &s, &cfg); if let Some(b) = write_frame(&f) { p.handle_bytes(tr, e, &b, json!({"forged": "ack-class"})); } }
                        2 => { let f = forge_sync(&mut r, &s, &cfg); if let Some(b) = write_frame(&f) { p.handle_bytes(tr, e, &b, json!({"forged": "sync-class"})); } }
                        3 => { let f = random_frame(&mut r); if let Some(b) = write_frame(&f) { p.handle_bytes(tr, e, &b, json!({"forged": "random-frame"})); } }
                        4 => {
                            let n = r.below(1473) as usize;
                            let mut b: Vec<u8> = (0..n).map(|_| r.next() as u8).collect();
                            if r.chance(1, 2) && n > 5 {
                                b[0] = *r.pick(&[0u8, 1, 2, 3, 4, 5, 10, 11, 12, 13, 255]);
                                fix_crc(&mut b);
                            }
                            p.handle_bytes(tr, e, &b, json!({"forged": "random-bytes"}));
                        }
                        _ => {
                            if !genuine_frames.is_empty() {
                                let mut b = r.pick(&genuine_frames).to_vec();
                                match r.below(4) {
                                    0 => { let i = r.below(b.len() as u64) as usize; b[i] ^= 1 << r.below(8); fix_crc(&mut b); }
                                    1 => { let cut = r.below(b.len() as u64) as usize; b.truncate(cut.max(5)); fix_crc(&mut b); }
                                    2 => { let extra = r.range(1, 20) as usize; let n = b.len(); b.splice(n - 4..n - 4, vec![0u8; extra]); b.truncate(1472); fix_crc(&mut b); }
                                    _ => { let i = r.below(b.len() as u64) as usize; b[i] = r.next() as u8; fix_crc(&mut b); }
                                }
                                p.handle_bytes(tr, e, &b, json!({"forged": "mutated-genuine"}));
                            }
                        }
                    }
                }
            }
            // memory hog (C06): a burst of frames, each opening one more packet of the receive window that will never be
            // completed - one fragment only, the first or the LAST one (a last fragment that arrives first is short, the
            // buffer it opens is not), of two fragments up to as many as the whole allocation holds
            if r.chance(1, 25) && !p.dead {
                let limit_frags = ((cfg.rx_alloc[e] + MAX_FRAGMENT_SIZE - 1) / MAX_FRAGMENT_SIZE).max(2) as u16;
                let last_first = r.chance(2, 3);
                let nfr = *r.pick(&[2u16, 2, 3, limit_frags / 2 + 1, limit_frags]);
                let last = nfr.max(2) - 1;
                let len = if last_first { *r.pick(&[0usize, 1, 10, 700]) } else { MAX_FRAGMENT_SIZE };
                let s0 = p.ep[e].hc.as_ref().unwrap().verif_snapshot();
                for j in 0..pw.min(64) {
                    if p.dead {
                        break;
                    }
                    let s = p.ep[e].hc.as_ref().unwrap().verif_snapshot();
                    let d = uv::Datagram { sequence_id: pid_add(s0.rx_base, j), channel_id: r.below(3) as u8, window_parent_lead: 0, channel_parent_lead: 0,
                        fragment_id: if last_first { last } else { 0 }, fragment_id_last: last, data: vec![0xCD; len].into_boxed_slice() };
                    let f = uv::Frame::DataFrame(uv::DataFrame { sequence_id: s.rf_base, nonce: r.chance(1, 2), datagrams: vec![d] });
                    if let Some(b) = write_frame(&f) {
                        injected += 1;
                        p.handle_bytes(tr, e, &b, json!({"forged": "memory-hog"}));
                    }
                }
            }
            // acknowledgement flood: a burst of empty data frames whose ids are 32 or more apart, each inside the
            // receive window (which follows the latest id), so that every one of them starts an ack group of its own;
            // the endpoint then owes hundreds of groups - more than fit into one ack frame - at its next flush
            // (launched when the endpoint has at least one full frame of send credit, so that the flush after it is
            // limited by the frame size and not by the budget)
            let credit = p.ep[e].hc.as_ref().map(|h| h.verif_snapshot().flush_alloc).unwrap_or(0);
            if flood && fw >= 64 && ((credit >= 1472 && r.chance(1, 4)) || r.chance(1, 40)) {
                // 170..700 groups are two to five ack frames; every third flood is large enough (up to sixteen frames) to
                // exceed ceiling x RTT + one frame for any ceiling / RTT pair that lets a full frame of credit build up
                let n = if r.chance(1, 3) { r.range(1500, 2500) } else { r.range(170, 700) };
                let stride = (*r.pick(&[32u32, 33, 40, 63])).min(fw);
                for _ in 0..n {
                    if p.dead {
                        break;
                    }
                    let s = p.ep[e].hc.as_ref().unwrap().verif_snapshot();
                    let f = uv::Frame::DataFrame(uv::DataFrame { sequence_id: s.rf_base.wrapping_add(stride - 1), nonce: r.chance(1, 2), datagrams: vec![] });
                    if let Some(b) = write_frame(&f) {
                        injected += 1;
                        p.handle_bytes(tr, e, &b, json!({"forged": "ack-flood"}));
                    }
                }
            }
            p.step(tr, e, log_steps);
            if r.chance(9, 10) {
                p.receive(tr, e);
            }
        }
    }
    // the endpoints must go on working: a fair tail with plain stepping
    for _ in 0..200 {
        if p.dead {
            break;
        }
        advance_ms(20);
        for e in [0usize, 1] {
            let frames = p.flush(tr, e, None);
            for (idx, bytes) in frames.into_iter() {
                let due = p.t_ms();
                p.launch(e, idx, bytes, due);
            }
            p.deliver_due(tr, e);
            p.step(tr, e, log_steps);
            p.receive(tr, e);
        }
    }
    tr.line(json!({"ev": "End", "run": run, "dead": p.dead, "calls": p.calls}));
    HostileStats { injected, dead: p.dead }
}

/// Reassembly scenario (C04): every fragment of a batch of packets is handed to the receiver in its own
/// frame, in a random order, with repetitions, and - after the genuine copy of a fragment has been handed
/// over - with copies that disagree with it (other payload length or contents, other header fields).
pub fn run_reasm(tr: &mut Trace, run: u64, seed: u64) -> HostileStats {
    let mut r = Rng::new(seed);
    crate::hc_random::uflow_rand_seed(seed);
    let cfg = PairCfg { pw: 4096, fw: 4096, pbase: [(r.next() as u32) & PID_MASK, 0], fbase: [r.next() as u32, 0],
        rx_alloc: [1_000_000, 1_000_000], bw: [2_000_000, 2_000_000], keepalive: None };
    let mut p = Pair::new(cfg.clone());
    p.log_probe = false;
    tr.line(json!({"ev": "Reset", "run": run, "seed": seed as i64 & 0x3FFFFFFF, "driver": "hc-random", "profile": "reasm", "ideal": false,
        "cfg": p.cfg_json(), "ceil_a": cfg.bw[0], "ceil_b": cfg.bw[1], "nch": 4, "latency": 0, "cadence": 0}));
    let npk = r.range(3, 12);
    let m = MAX_FRAGMENT_SIZE;
    for _ in 0..npk {
        let len = match r.below(7) {
            0 => r.range(4, 1448) as usize,
            1 => m * r.range(1, 4) as usize,
            2 => m * r.range(1, 4) as usize + 1,
            3 => m * r.range(2, 5) as usize - 1,
            4 => r.range(m as u64 + 1, 6 * m as u64) as usize,
            5 => 0,
            _ => r.range(m as u64 * 2, m as u64 * 3) as usize,
        };
        p.send(tr, 0, r.below(4) as u8, SendMode::Reliable, len);
    }
    // everything leaves in one flush with ample credit
    let frames = p.flush(tr, 0, Some((1 << 30, 1, 1000, 1000)));
    let mut dgs: Vec<uv::Datagram> = Vec::new();
    for (_, bytes) in frames.iter() {
        if let Some(uv::Frame::DataFrame(f)) = uv::Frame::read(bytes) {
            dgs.extend(f.datagrams);
        }
    }
    // random order with repetitions
    let mut order: Vec<usize> = (0..dgs.len()).collect();
    for k in (1..order.len()).rev() {
        let j = r.below(k as u64 + 1) as usize;
        order.swap(k, j);
    }
    let extra = r.below(dgs.len() as u64 + 1);
    for _ in 0..extra {
        let at = r.below(order.len() as u64 + 1) as usize;
        order.insert(at, r.below(dgs.len() as u64) as usize);
    }
    let mut seen: Vec<usize> = Vec::new(); // genuine datagrams already handed over
    let mut injected = 0u64;
    let hand = |p: &mut Pair, tr: &mut Trace, d: uv::Datagram, origin: serde_json::Value| {
        let s = p.ep[1].hc.as_ref().unwrap().verif_snapshot();
        let f = uv::Frame::DataFrame(uv::DataFrame { sequence_id: s.rf_base, nonce: false, datagrams: vec![d] });
        if let Some(b) = write_frame(&f) {
            if b.len() <= MAX_FRAME_SIZE {
                p.handle_bytes(tr, 1, &b, origin);
            }
        }
    };
    for &i in order.iter() {
        if p.dead {
            break;
        }
        hand(&mut p, tr, dgs[i].clone(), json!({"genuine": i}));
        if !seen.contains(&i) {
            seen.push(i);
        }
        // a disagreeing copy of something that has already been handed over
        if r.chance(50, 100) && !p.dead {
            let j = *r.pick(&seen);
            let mut d = dgs[j].clone();
            let is_last = d.fragment_id == d.fragment_id_last;
            let ok = match r.below(6) {
                0 if is_last => { let n = r.below(d.data.len() as u64 + 1) as usize; d.data = d.data[..n].to_vec().into_boxed_slice(); true }
                1 if is_last && d.data.len() < m => { let mut v = d.data.to_vec(); v.extend(std::iter::repeat(0xEE).take(r.range(1, (m - v.len()) as u64) as usize)); d.data = v.into_boxed_slice(); true }
                2 => { let mut v = d.data.to_vec(); for b in v.iter_mut() { *b ^= 0xFF; } d.data = v.into_boxed_slice(); !v_is_empty(&d) }
                3 if d.fragment_id_last > 0 => { d.fragment_id_last += 1; d.fragment_id == d.fragment_id_last - 1 && d.data.len() == m || d.data.len() == m }
                4 => { d.window_parent_lead = d.window_parent_lead.wrapping_add(1).max(1); if d.channel_parent_lead != 0 && d.channel_parent_lead < d.window_parent_lead { d.channel_parent_lead = d.window_parent_lead; } true }
                _ => false,
            };
            if ok {
                injected += 1;
                hand(&mut p, tr, d, json!({"forged": "disagreeing-fragment"}));
            }
        }
        if r.chance(1, 4) && !p.dead {
            p.receive(tr, 1);
        }
    }
    if !p.dead {
        p.receive(tr, 1);
        // every packet was Reliable and every fragment was handed over: all of them must have been delivered
        let all = p.ep[0].subs.iter().all(|s| s.delivered);
        tr.line(json!({"ev": "ReasmEnd", "all_delivered": all, "packets": p.ep[0].subs.len()}));
    }
    tr.line(json!({"ev": "End", "run": run, "dead": p.dead, "calls": p.calls}));
    HostileStats { injected, dead: p.dead }
}

fn v_is_empty(d: &uv::Datagram) -> bool {
    d.data.is_empty()
}
