#!/usr/bin/env python3
"""Shared driver library for /verif/bin/check: build the harness from /repo's working tree, run it,
filter traces, validate them with TLC against the TLA+ monitors / models, classify results against
KNOWN_FINDINGS.json, write evidence and replay files.

Exit codes used by callers: 0 held, 1 violation (with VIOLATION line), 2 tool error / timeout."""

import json, os, re, subprocess, sys, time, shutil, hashlib, concurrent.futures

VERIF = os.path.dirname(os.path.dirname(os.path.abspath(__file__)))
SPEC = os.path.join(VERIF, "spec")
# Evaluation of a seeded change on private copies (bin/seedeval): VERIF_ALT_ROOT names a scratch directory that holds a
# copy of the harness (its path dependency pointing at a patched copy of /repo) and receives work files, evidence and
# replay files, so that neither /repo nor /verif's own results are touched.  Unset in every registered command.
OUT_ROOT = os.environ.get("VERIF_ALT_ROOT") or VERIF
HARNESS = os.path.join(OUT_ROOT, "harness")
WORK = os.path.join(OUT_ROOT, "work")
UVH = os.path.join(HARNESS, "target", "debug", "uvh")
JAVA_OPTS = "-Xss1g -Dtlc2.tool.queue.IStateQueue=StateDeque"
TLA_JAR = "/opt/veriftools/tla/tla2tools.jar"


class ToolError(Exception):
    pass


def log(*a):
    print(*a, file=sys.stderr, flush=True)


def seed_from_env():
    try:
        return int(os.environ.get("VERIF_SEED", "1"))
    except ValueError:
        return 1


def workdir(name):
    d = os.path.join(WORK, name)
    shutil.rmtree(d, ignore_errors=True)
    os.makedirs(d, exist_ok=True)
    return d


# ------------------------------------------------------------------------------------------ build

_built = False


def build_harness():
    """cargo build of the harness against /repo's current working tree (hooks enabled by the
    harness's .cargo/config.toml).  Serialised across concurrently running checks by a lock file."""
    global _built
    if _built:
        return
    os.makedirs(WORK, exist_ok=True)
    import fcntl
    with open(os.path.join(WORK, ".build.lock"), "w") as lk:
        fcntl.flock(lk, fcntl.LOCK_EX)
        lockfile = os.path.join(HARNESS, "Cargo.lock")
        if not os.path.exists(lockfile):
            shutil.copy("/repo/Cargo.lock", lockfile)
        env = dict(os.environ)
        env["CARGO_NET_OFFLINE"] = "true"
        t0 = time.time()
        p = subprocess.run(["cargo", "build", "--offline"], cwd=HARNESS, env=env, stdout=subprocess.PIPE, stderr=subprocess.STDOUT, text=True)
        if p.returncode != 0:
            sys.stderr.write(p.stdout[-6000:])
            raise ToolError("harness build failed (does /repo compile with --cfg uflow_verif?)")
        log("[build] harness built in %.1fs" % (time.time() - t0))
    _built = True


# ---------------------------------------------------------------------------------------- harness

def run_harness(sub, args, out, start, runs, timeout_s=1800, env=None):
    """Run `uvh <sub>` for run indices [start, start+runs).  The harness exits 3 when a call into the
    library did not return (watchdog); the hang record is already in the trace, and the remaining
    runs are executed by a fresh process appending to a continuation file."""
    parts = []
    cur = start
    end = start + runs
    k = 0
    t0 = time.time()
    while cur < end:
        part = "%s.part%d" % (out, k)
        prog = part + ".progress"
        cmd = [UVH, sub, "--out", part, "--progress", prog, "--start", str(cur), "--runs", str(end - cur)] + [str(a) for a in args]
        try:
            p = subprocess.run(cmd, stdout=subprocess.PIPE, stderr=subprocess.PIPE, text=True, timeout=max(10, timeout_s - (time.time() - t0)), env=dict(os.environ, **env) if env else None)
        except subprocess.TimeoutExpired:
            raise ToolError("harness timed out: %s" % " ".join(cmd))
        parts.append(part)
        if p.returncode == 0:
            break
        if p.returncode == 3:
            try:
                done = int(open(prog).read().strip())
            except Exception:
                raise ToolError("harness hang without progress: %s" % p.stderr[-2000:])
            # close the hung run so that monitors see a complete record
            with open(part, "a") as f:
                f.write(json.dumps({"ev": "End", "run": done, "dead": True, "calls": 0}) + "\n")
            cur = done + 1
            k += 1
            continue
        raise ToolError("harness failed (%d): %s\n%s" % (p.returncode, " ".join(cmd), p.stderr[-3000:]))
    with open(out, "w") as o:
        for part in parts:
            with open(part) as f:
                shutil.copyfileobj(f, o)
            os.remove(part)
            if os.path.exists(part + ".progress"):
                os.remove(part + ".progress")
    return out


def run_harness_parallel(sub, args, outprefix, total_runs, jobs, timeout_s=1800, start0=0, env=None):
    """Split `total_runs` into `jobs` contiguous ranges, one harness process each."""
    per = (total_runs + jobs - 1) // jobs
    tasks = []
    s = start0
    i = 0
    while s < start0 + total_runs:
        n = min(per, start0 + total_runs - s)
        tasks.append(("%s.%d.ndjson" % (outprefix, i), s, n))
        s += n
        i += 1
    outs = []
    with concurrent.futures.ThreadPoolExecutor(max_workers=jobs) as ex:
        futs = [ex.submit(run_harness, sub, args, o, s, n, timeout_s, env) for (o, s, n) in tasks]
        for f in futs:
            outs.append(f.result())
    return outs


def ev_of(line):
    i = line.find('"ev":"')
    if i < 0:
        return ""
    j = line.find('"', i + 6)
    return line[i + 6:j]


def filter_trace(src, dst, keep, transform=None, chunk=20000):
    """Project a full trace onto the event kinds a monitor reads and split it into chunks of at most
    `chunk` lines at run boundaries (TLC's trace validation is linear up to a few tens of thousands
    of lines per JVM).  Returns (lines, runs, [chunk files])."""
    n = 0
    runs = 0
    files = []
    cur = None
    cur_n = 0
    k = 0
    with open(src) as f:
        for line in f:
            ev = ev_of(line)
            if ev in keep:
                if transform:
                    line = transform(ev, line)
                    if line is None:
                        continue
                if cur is None or (ev == "Reset" and cur_n >= chunk):
                    if cur:
                        cur.close()
                    name = dst.replace(".ndjson", ".c%d.ndjson" % k)
                    k += 1
                    cur = open(name, "w")
                    files.append(name)
                    cur_n = 0
                cur.write(line)
                cur_n += 1
                n += 1
                if ev == "Reset":
                    runs += 1
    if cur:
        cur.close()
    return n, runs, files


# -------------------------------------------------------------------------------------------- TLC

def tlc(module, cfg, env_extra=None, workers=1, timeout_s=3600, extra=None, heap="3g", cwd=None, simulate=None):
    """Run TLC; returns dict(out, rc, distinct, generated, depth, violated, wall).
    A run that dies of a Java StackOverflowError is repeated (twice at most): evaluating the large set-valued
    POSTCONDITION of MC_Codec overflowed the stack in about one start out of five, depending on how far the JIT had got
    (the specification is the same every time; a deterministic error shows up three times and is reported)."""
    for attempt in range(3):
        try:
            return _tlc_once(module, cfg, env_extra, workers, timeout_s, extra, heap, cwd, simulate)
        except ToolError as e:
            if "StackOverflowError" not in str(e) or attempt == 2:
                raise
            log("[tlc] StackOverflowError in %s, attempt %d: repeating" % (os.path.basename(module), attempt + 1))


def _tlc_once(module, cfg, env_extra=None, workers=1, timeout_s=3600, extra=None, heap="3g", cwd=None, simulate=None):
    md = workdir("tlc_%s_%s" % (os.path.basename(cfg).replace(".cfg", ""), hashlib.md5((cfg + str(env_extra) + str(time.time())).encode()).hexdigest()[:8]))
    env = dict(os.environ)
    # single-worker runs (trace validation, up to 8 JVMs side by side) must not each start a GC thread per core
    env["JAVA_TOOL_OPTIONS"] = JAVA_OPTS + (" -XX:ParallelGCThreads=%d" % (2 if workers == 1 else max(2, workers // 2))) + " -Xmx" + heap
    if env_extra:
        env.update(env_extra)
    cmd = ["java", "-cp", TLA_JAR + ":/opt/veriftools/tla/CommunityModules-deps.jar", "tlc2.TLC"]
    cmd = ["tlc"]
    cmd += ["-workers", str(workers), "-metadir", md, "-cleanup", "-noGenerateSpecTE", "-config", cfg]
    if simulate:
        cmd += ["-simulate", simulate]
    if extra:
        cmd += extra
    cmd += [module]
    t0 = time.time()
    try:
        # (unlimited stack for the JVM's primordial thread as well; worker threads get -Xss)
        p = subprocess.Popen(["bash", "-c", 'ulimit -s unlimited 2>/dev/null; exec "$@"', "tlc-run", "timeout", str(int(timeout_s))] + cmd, cwd=cwd or SPEC, env=env, stdout=subprocess.PIPE, stderr=subprocess.STDOUT, text=True)
        buf = []
        seen_bad = False
        cut_short = False
        for line in p.stdout:
            buf.append(line)
            if '"BAD-SET"' in line:
                seen_bad = True
            # the monitor has printed its verdict set; the state-by-state listing that follows (tens of
            # thousands of states, about a minute) adds nothing
            if seen_bad and line.startswith("Error: The behavior up to this point is:"):
                cut_short = True
                p.terminate()   # `timeout` forwards SIGTERM to the JVM
                break
        p.wait()
    finally:
        pass
    wall = time.time() - t0
    out = "".join(buf)
    if cut_short:
        p.returncode = 12
    shutil.rmtree(md, ignore_errors=True)
    if p.returncode == 124:
        raise ToolError("TLC timed out after %ds: %s" % (timeout_s, " ".join(cmd)))
    res = {"out": out, "rc": p.returncode, "wall": wall, "distinct": 0, "generated": 0, "depth": 0, "violated": None, "rejected": None}
    m = re.search(r"(\d+) states generated, (\d+) distinct states found", out)
    if m:
        res["generated"] = int(m.group(1))
        res["distinct"] = int(m.group(2))
    m = re.search(r"depth of the complete state graph search is (\d+)", out)
    if m:
        res["depth"] = int(m.group(1))
    m = re.search(r"Error: Invariant (\S+) is violated", out)
    if m:
        res["violated"] = m.group(1)
    m = re.search(r"Error: Action property (\S+) is violated", out) or re.search(r"Error: Temporal property (\S+) was violated", out) or re.search(r"Temporal properties were violated", out)
    if m and not res["violated"]:
        res["violated"] = m.group(1) if m.groups() else "temporal"
    if "TRACE-REJECTED" in out:
        m = re.search(r'"TRACE-REJECTED at line",\s*(\d+)', out)
        res["rejected"] = int(m.group(1)) if m else -1
    if "Error:" in out and not res["violated"] and res["rejected"] is None:
        # parse / evaluation errors are tool errors
        if re.search(r"Error: (?!Invariant|The behavior|Postcondition|Action property|Temporal)", out):
            idx = out.find("Error:")
            raise ToolError("TLC error in %s:\n%s" % (module, out[idx:idx + 3000]))
    return res


_BAD_RE = re.compile(r'<<\s*"(C\d+|CONF)",\s*"([^"]+)",\s*(\d+)\s*>>')


def parse_bad(out):
    """Extract the monitor's `bad` set from the last state TLC printed."""
    i = out.find('"BAD-SET"')
    if i >= 0:
        j = out.find("Error:", i)
        seg = out[i: j if j > 0 else len(out)]
    else:
        i = out.rfind("/\\ bad =")
        if i < 0:
            return []
        j = out.find("\n\n", i)
        seg = out[i: j if j > 0 else len(out)]
    return [(m.group(1), m.group(2), int(m.group(3))) for m in _BAD_RE.finditer(seg)]


def validate_trace(module, cfg, trace, heap="3g", timeout_s=1800):
    """TLC trace validation of one (filtered) ndjson file against a monitor.  Returns
    dict(lines, states, bad=[(prop, reason, line)], wall).  A rejected trace is a tool error."""
    r = tlc(os.path.join(SPEC, module), os.path.join(SPEC, cfg), env_extra={"TRACE": trace}, heap=heap, timeout_s=timeout_s)
    bad = []
    if r["violated"]:
        bad = parse_bad(r["out"])
        if not bad:
            raise ToolError("invariant %s violated but no bad entries parsed:\n%s" % (r["violated"], r["out"][-3000:]))
    elif r["rejected"] is not None:
        raise ToolError("trace %s rejected by %s at line %d (harness broke a monitor assumption):\n%s" % (trace, module, r["rejected"], r["out"][-1500:]))
    elif r["rc"] != 0:
        raise ToolError("TLC failed on %s:\n%s" % (trace, r["out"][-3000:]))
    reports = {}
    for m in re.finditer(r'<<"([A-Z-]+)-REPORT", ([0-9, ]+)>>', r["out"]):
        reports[m.group(1)] = [int(x) for x in m.group(2).split(",")]
    for m in re.finditer(r'<<"OBS-LATE-AFTER-PULL", (\d+)>>', r["out"]):
        reports["OBS-LATE-AFTER-PULL"] = [int(m.group(1))]
    return {"states": r["distinct"], "generated": r["generated"], "bad": bad, "wall": r["wall"], "violated": r["violated"], "reports": reports}



# ------------------------------------------------------------------------------------------ apalache

def apalache(module, cinit, init, inv, length, timeout_s=900):
    """apalache-mc check on a typed TLA+ module (symbolic, bounded).  Returns dict(ok, error, out, wall): ok = no error up
    to `length`; error = the invariant is violated; anything else (timeout, crash) raises ToolError."""
    wd = workdir("apalache_%s_%s_%d" % (os.path.basename(module).replace(".tla", ""), cinit, length))
    t0 = time.time()
    try:
        p = subprocess.run(["timeout", str(timeout_s), "apalache-mc", "check", "--out-dir=" + os.path.join(wd, "out"), "--cinit=" + cinit, "--init=" + init,
                            "--inv=" + inv, "--length=%d" % length, module], cwd=wd, stdout=subprocess.PIPE, stderr=subprocess.STDOUT, text=True)
    except FileNotFoundError:
        raise ToolError("apalache-mc not found")
    out = p.stdout
    ok = "EXITCODE: OK" in out and "The outcome is: NoError" in out
    err = "The outcome is: Error" in out
    if not ok and not err:
        raise ToolError("apalache-mc failed on %s (%s, %s, %s, length %d):\n%s" % (module, cinit, init, inv, length, out[-2000:]))
    shutil.rmtree(os.path.join(wd, "out"), ignore_errors=True)
    return {"ok": ok, "error": err, "out": out, "wall": time.time() - t0}

# --------------------------------------------------------------------------------- known findings

def load_known():
    p = os.path.join(VERIF, "KNOWN_FINDINGS.json")
    if not os.path.exists(p):
        return []
    return json.load(open(p)).get("findings", [])


def match_known(known, prop, reason, ctx):
    """A known finding suppresses a violation only if it is listed as status=known for this property
    and every key of its `match` object is found in the violation's context (substring match for
    strings, equality otherwise)."""
    for k in known:
        if k.get("status") != "known" or k.get("property") != prop:
            continue
        m = k.get("match", {})
        ok = True
        for key, want in m.items():
            have = reason if key == "reason" else ctx.get(key)
            if isinstance(want, str):
                if have is None or want not in str(have):
                    ok = False
            elif isinstance(want, dict) and "max" in want:
                if have is None or not (have <= want["max"]):
                    ok = False
            elif isinstance(want, dict) and "min" in want:
                if have is None or not (have >= want["min"]):
                    ok = False
            elif have != want:
                ok = False
        if ok:
            return k
    return None


# ------------------------------------------------------------------------------ replays, evidence

def extract_run(trace, lineno):
    """Return (reset_record, lines) of the run that contains 1-based line `lineno` of `trace`."""
    lines = open(trace).read().splitlines()
    i = min(lineno, len(lines)) - 1
    s = i
    while s > 0 and ev_of(lines[s]) != "Reset":
        s -= 1
    e = i
    while e + 1 < len(lines) and ev_of(lines[e + 1]) != "Reset":
        e += 1
    reset = json.loads(lines[s]) if ev_of(lines[s]) == "Reset" else {}
    return reset, lines[s:e + 1], i - s


def write_replay(prop, name, meta, lines):
    d = os.path.join(OUT_ROOT, "replays", prop)
    os.makedirs(d, exist_ok=True)
    path = os.path.join(d, name + ".json")
    with open(path, "w") as f:
        json.dump({"property": prop, "meta": meta, "trace": lines[:4000]}, f, indent=0)
    return path


def write_evidence(prop, tier, seed, level, coverage, wall, violations, assumptions):
    os.makedirs(os.path.join(OUT_ROOT, "evidence"), exist_ok=True)
    ev = {"property_id": prop, "tier": tier, "seed": seed, "level": level, "coverage": coverage,
          "assumptions": assumptions, "wall_s": round(wall, 2), "violations": violations}
    with open(os.path.join(OUT_ROOT, "evidence", prop + ".json"), "w") as f:
        json.dump(ev, f, indent=1)


def sample_lines(trace, want=None, n=6):
    """A few actual lines of a trace: the first occurrence of each event kind (restricted to `want` if given)."""
    out = []
    seen = set()
    try:
        with open(trace) as f:
            for line in f:
                ev = ev_of(line)
                if ev in seen or (want is not None and ev not in want):
                    continue
                seen.add(ev)
                d = json.loads(line)
                txt = json.dumps(d)
                out.append(d if len(txt) < 1500 else {"ev": ev, "truncated": txt[:1500]})
                if len(out) >= n:
                    break
    except Exception:
        pass
    return out
