SPECIFICATION Spec
CONSTANTS
    IdMod = 16
    Span = 6
    MaxJudged = 9
    Gap = 10
    Rtts = {5, 25}
INVARIANT NoBadStep
INVARIANT HeldSane
INVARIANT IntervalsSane
CHECK_DEADLOCK FALSE
