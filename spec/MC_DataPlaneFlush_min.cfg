SPECIFICATION FSpec
CONSTANTS
    PW = 2
    FW = 2
    PMod = 8
    FMod = 16
    PBase0 = 7
    FBase0 = 15
    Chans = {0}
    Modes = {"R"}
    FragCounts = {1}
    TxAlloc = 3
    RxAlloc = 3
    MaxSend = 2
    MaxFrames = 3
    MaxSyncs = 1
    MaxEpoch = 0
    NetCap = 2
    Faults = 1
    GW = 32
    Keepalive = FALSE
    FreeNonce = FALSE
    HeadOnly = FALSE
CONSTRAINT StateConstraint
CHECK_DEADLOCK FALSE
INVARIANT FlushedBeforeDisconnect
