SPECIFICATION Spec
CONSTANTS
    N = 5
    Gaps = {0, 1, 3, 10}
    Sizes = {1, 5, 24}
    Rates = {1, 2, 7}
INVARIANT BucketIsMaxOverIntervals
CHECK_DEADLOCK FALSE
