SPECIFICATION Spec
INVARIANT C04
POSTCONDITION Accepted
CHECK_DEADLOCK FALSE
ALIAS Brief
