-------------------------------- MODULE SessionTrace ------------------------------
(* Conformance of the real Client / Server with Session.tla: the model is run in lock-step
   with a recorded execution (every datagram handed to an endpoint, every step with its time,
   every application call) and must produce, at every step, exactly the events and the
   handshake / disconnect frames the real endpoint produced.  Divergences are collected in
   `mism`; they are reported as conformance mismatches (DESIGN.md 2.2), not as verdicts. *)
EXTENDS TraceIO, Session

Peers == {"c0", "c1", "c2", "c3", "x0", "x1", "x2", "unknown"}
Placeholder == <<-2, -2>>       \* nonce the server is about to draw; bound when its SYN-ACK is seen on the wire
NoClient == [st |-> "Idle", nonce |-> NoNonce, remote |-> NoNonce, at |-> 0, left |-> 0, deadline |-> 0, disc |-> "none", T |-> 0, srate |-> 0, pAlloc |-> 0, pRate |-> 0]

VARIABLES cl, sv, cfg, inC, inS, evBuf, limBuf, expOut, nsteps, mism
vars == <<l, cl, sv, cfg, inC, inS, evBuf, limBuf, expOut, nsteps, mism>>
Eps == Peers \cup {"s"}

Nonce(r, f, g) == <<r[f], r[g]>>
Flag(why) == IF Cardinality(mism) < 100 THEN {<<"CONF", why, l>>} ELSE {}

Init == /\ l = 1 /\ cl = [p \in Peers |-> NoClient] /\ sv = [p \in Peers |-> NoEntry]
        /\ cfg = [maxActive |-> 1, maxTotal |-> 1, herr |-> FALSE, T |-> 20000, psize |-> 0, alloc |-> 0, rate |-> 0, rrate |-> 0]
        /\ inC = [p \in Peers |-> <<>>] /\ inS = <<>> /\ evBuf = [e \in Eps |-> <<>>] /\ limBuf = [e \in Eps |-> <<>>] /\ expOut = [e \in Eps |-> <<>>] /\ nsteps = 0 /\ mism = {}

Leftover == \E e \in Eps : expOut[e] # <<>>

Reset ==
    /\ IsEvent("Reset")
    /\ cl' = [p \in Peers |-> NoClient] /\ sv' = [p \in Peers |-> NoEntry]
    /\ cfg' = [maxActive |-> Cur.max_active, maxTotal |-> Cur.max_total, herr |-> Cur.herr, T |-> Cur.server.timeout,
               psize |-> Cur.server.max_packet_size, alloc |-> Cur.server.max_receive_alloc,
               rate |-> Cur.server.max_send_rate, rrate |-> Cur.server.max_receive_rate]
    /\ inC' = [p \in Peers |-> <<>>] /\ inS' = <<>> /\ evBuf' = [e \in Eps |-> <<>>] /\ limBuf' = [e \in Eps |-> <<>>] /\ expOut' = [e \in Eps |-> <<>>]
    /\ mism' = mism \cup (IF Leftover THEN Flag("expected-frame-never-sent") ELSE {})
    /\ UNCHANGED nsteps

AppConnect ==
    /\ IsEvent("Connect")
    /\ cl' = [cl EXCEPT ![Cur.ep] = ClientInitL(NoNonce, Cur.t, Cur.timeout, Cur.max_send_rate)]
    /\ expOut' = [expOut EXCEPT ![Cur.ep] = <<Syn(Placeholder)>>]          \* Client::connect sends the first SYN
    /\ UNCHANGED <<sv, cfg, inC, inS, evBuf, limBuf, nsteps, mism>>

App ==
    /\ IsEvent("App")
    /\ IF Cur.ep = "s"
       THEN /\ sv' = CASE Cur.call = "disconnect" -> ServerDisconnect(sv, Cur.peer, FALSE)
                       [] Cur.call = "disconnect_now" -> ServerDisconnect(sv, Cur.peer, TRUE)
                       [] Cur.call = "drop" -> ServerDrop(sv, Cur.peer)
                       [] OTHER -> sv
            /\ UNCHANGED cl
       ELSE /\ cl' = CASE Cur.call = "disconnect" -> [cl EXCEPT ![Cur.ep] = ClientDisconnect(@, FALSE)]
                       [] Cur.call = "disconnect_now" -> [cl EXCEPT ![Cur.ep] = ClientDisconnect(@, TRUE)]
                       [] OTHER -> cl
            /\ UNCHANGED sv
    /\ UNCHANGED <<cfg, inC, inS, evBuf, limBuf, expOut, nsteps, mism>>

(* abstract view of a datagram *)
Abs(r) ==
    CASE r.type = "SYN" -> [ty |-> "SYN", nonce |-> Nonce(r, "nonce", "nonce_lsb"), version |-> r.version, psize |-> r.max_packet_size, alloc |-> r.max_receive_alloc, rate |-> r.max_receive_rate]
      [] r.type = "SYNACK" -> [ty |-> "SYNACK", nonce_ack |-> Nonce(r, "nonce_ack", "nonce_ack_lsb"), nonce |-> Nonce(r, "nonce", "nonce_lsb"),
                               rate |-> r.max_receive_rate, psize |-> r.max_packet_size, alloc |-> r.max_receive_alloc]
      [] r.type = "ACK" -> Ack(Nonce(r, "nonce_ack", "nonce_ack_lsb"))
      [] r.type = "ERR" -> Err(Nonce(r, "nonce_ack", "nonce_ack_lsb"), r.err)
      [] r.type = "DISC" -> Disc
      [] r.type = "DISCACK" -> DiscAck
      [] r.type \in {"DATA", "SYNC", "ACKF"} -> [ty |-> "DATA"]
      [] OTHER -> [ty |-> "GARBAGE"]

ErrName(e) == CASE e = "Timeout" -> "ErrorTimeout" [] e = "Version" -> "ErrorVersion" [] e = "Config" -> "ErrorConfig" [] e = "ServerFull" -> "ErrorServerFull" [] OTHER -> "ErrorUnknown"

Fwd ==
    /\ IsEvent("Fwd")
    /\ IF Cur.to = "s"
       THEN /\ inS' = IF Cur.type = "garbage" THEN inS ELSE Append(inS, <<Cur.from, Abs(Cur), Placeholder>>)
            /\ UNCHANGED inC
       ELSE /\ inC' = IF Cur.type = "garbage" \/ Cur.to \notin Peers THEN inC ELSE [inC EXCEPT ![Cur.to] = Append(@, Abs(Cur))]
            /\ UNCHANGED inS
    /\ UNCHANGED <<cl, sv, cfg, evBuf, limBuf, expOut, nsteps, mism>>

Event ==
    /\ IsEvent("Event")
    /\ evBuf' = IF Cur.kind = "Receive" THEN evBuf
                ELSE [evBuf EXCEPT ![Cur.ep] = Append(@, IF Cur.ep = "s" THEN <<Cur.peer, IF Cur.kind = "Error" THEN ErrName(Cur.err) ELSE Cur.kind>>
                                                          ELSE (IF Cur.kind = "Error" THEN ErrName(Cur.err) ELSE Cur.kind))]
    /\ UNCHANGED <<cl, sv, cfg, inC, inS, limBuf, expOut, nsteps, mism>>

(* the limits an endpoint holds for the connection it has just reported (cfg(uflow_verif) accessor), compared at the end of the
   step with what the model's endpoint took from the handshake frame it accepted *)
Limits ==
    /\ IsEvent("Limits")
    /\ limBuf' = [limBuf EXCEPT ![Cur.ep] = Append(@, [peer |-> Cur.peer, tx_alloc |-> Cur.tx_alloc, rate |-> Cur.rate])]
    /\ UNCHANGED <<cl, sv, cfg, inC, inS, evBuf, expOut, nsteps, mism>>

Clip(n) == IF n > 2000000000 THEN 2000000000 ELSE n
ClipL(x) == [tx_alloc |-> Clip(x.tx_alloc), rate |-> x.rate]

(* does the endpoint put a DISCONNECT on the wire right after this step? (oracle for is_send_pending) *)
RECURSIVE DiscFollows(_, _, _)
DiscFollows(i, ep, to) ==
    IF i > NRec \/ Rec[i].ev # "Wire" THEN FALSE
    ELSE IF Rec[i].from = ep /\ Rec[i].type = "DISC" /\ (to = "" \/ Rec[i].to = to) THEN TRUE
    ELSE DiscFollows(i + 1, ep, to)

PerPeer(evs, p) == SelectSeq(evs, LAMBDA x : x[1] = p)

StepEnd ==
    /\ IsEvent("StepEnd")
    /\ LET e == Cur.ep  t == Cur.t IN
       IF e = "s"
       THEN LET fl == {a \in Peers : DiscFollows(l + 1, "s", a)}
                r == ServerStep(sv, inS, t, cfg, fl)
                sameEv == \A p \in Peers : PerPeer(r.ev, p) = PerPeer(evBuf["s"], p)
            IN /\ sv' = r.s /\ inS' = <<>>
               /\ expOut' = [expOut EXCEPT !["s"] = r.out]
               /\ mism' = mism \cup (IF ~sameEv THEN Flag("server-events-differ-from-model") ELSE {})
                               \cup (IF expOut["s"] # <<>> THEN Flag("server-frame-expected-by-model-not-sent") ELSE {})
                               \cup (IF \E i \in 1..Len(limBuf["s"]) : LET x == limBuf["s"][i] IN
                                         x.peer \in Peers /\ r.s[x.peer].st = "Active" /\ ClipL(SLimits(r.s[x.peer], cfg)) # [tx_alloc |-> x.tx_alloc, rate |-> x.rate]
                                     THEN Flag("server-limits-differ-from-model") ELSE {})
               /\ UNCHANGED <<cl, inC>>
       ELSE LET r == ClientStep(cl[e], inC[e], t, DiscFollows(l + 1, e, ""))
            IN /\ cl' = [cl EXCEPT ![e] = r.c] /\ inC' = [inC EXCEPT ![e] = <<>>]
               /\ expOut' = [expOut EXCEPT ![e] = r.out]
               /\ mism' = mism \cup (IF r.ev # evBuf[e] THEN Flag("client-events-differ-from-model") ELSE {})
                               \cup (IF expOut[e] # <<>> THEN Flag("client-frame-expected-by-model-not-sent") ELSE {})
                               \cup (IF \E i \in 1..Len(limBuf[e]) : LET x == limBuf[e][i] IN
                                         r.c.st = "Active" /\ ClipL(CLimits(r.c)) # [tx_alloc |-> x.tx_alloc, rate |-> x.rate]
                                     THEN Flag("client-limits-differ-from-model") ELSE {})
               /\ UNCHANGED <<sv, inS>>
    /\ evBuf' = [evBuf EXCEPT ![Cur.ep] = <<>>]
    /\ limBuf' = [limBuf EXCEPT ![Cur.ep] = <<>>]
    /\ nsteps' = nsteps + 1
    /\ UNCHANGED cfg

(* a frame the endpoint put on the wire must be the next one the model expects (data-plane frames are not modelled) *)
Wire ==
    /\ IsEvent("Wire")
    /\ IF Cur.type \in {"DATA", "SYNC", "ACKF", "garbage"} \/ Cur.from \notin Eps
       THEN UNCHANGED <<cl, sv, expOut, mism>>
       ELSE LET e == Cur.from
                got == Abs(Cur)
                q == expOut[e]
            IN IF e = "s"
               THEN \* the relays are read peer by peer, so only the order per destination is meaningful
                    LET a == Cur.to
                        I == {i \in 1..Len(q) : q[i][1] = a}
                    IN IF I = {} THEN mism' = mism \cup Flag("server-sent-frame-the-model-does-not-expect") /\ UNCHANGED <<cl, sv, expOut>>
                    ELSE LET i == CHOOSE x \in I : \A y \in I : x <= y
                             want == q[i][2]
                             bind == want.ty = "SYNACK" /\ want.nonce = Placeholder /\ got.ty = "SYNACK" /\ got.nonce_ack = want.nonce_ack
                                     /\ got.rate = want.rate /\ got.psize = want.psize /\ got.alloc = want.alloc        \* a server advertises its own limits
                             ok == bind \/ want = got
                         IN /\ expOut' = [expOut EXCEPT ![e] = SubSeq(q, 1, i - 1) \o SubSeq(q, i + 1, Len(q))]
                            /\ sv' = IF bind THEN [sv EXCEPT ![a].local = got.nonce] ELSE sv
                            /\ mism' = mism \cup (IF ~ok THEN Flag("server-frame-differs-from-model") ELSE {})
                            /\ UNCHANGED cl
               ELSE IF q = <<>> THEN mism' = mism \cup Flag("client-sent-frame-the-model-does-not-expect") /\ UNCHANGED <<cl, sv, expOut>>
                    ELSE LET want == Head(q)
                             bind == want.ty = "SYN" /\ want.nonce = Placeholder /\ got.ty = "SYN"
                             wantSyn == want.ty = "SYN" /\ got.ty = "SYN" /\ got.nonce = want.nonce
                             ok == bind \/ wantSyn \/ want = got
                         IN /\ expOut' = [expOut EXCEPT ![e] = Tail(q)]
                            /\ cl' = IF bind THEN [cl EXCEPT ![e].nonce = got.nonce] ELSE cl
                            /\ mism' = mism \cup (IF ~ok THEN Flag("client-frame-differs-from-model") ELSE {})
                            /\ UNCHANGED sv
    /\ UNCHANGED <<cfg, inC, inS, evBuf, limBuf, nsteps>>

Skip ==
    /\ IsOneOf({"End", "FaultsEnd", "Net", "Ret", "Step"})
    /\ UNCHANGED <<cl, sv, cfg, inC, inS, evBuf, limBuf, expOut, nsteps, mism>>

Next == Reset \/ AppConnect \/ App \/ Fwd \/ Event \/ Limits \/ StepEnd \/ Wire \/ Skip
Spec == Init /\ [][Next]_vars

AtEnd == l = NRec + 1
Brief == IF AtEnd THEN [l |-> l, bad |-> mism, nsteps |-> nsteps] ELSE [l |-> l]
CONF == AtEnd => NoneFor(mism, "CONF")
Report == AtEnd => PrintT(<<"SESSCONF-REPORT", nsteps, Cardinality(mism)>>)
====================================================================================
