--------------------------------- MODULE MC_FrameQueue ---------------------------------
(* The reorder buffer of Feedback.tla inside the frame queue that owns it (frame_queue.rs): a frame log
   [logBase, next) of sent frames, the transfer window base, the set of frames already acknowledged.
   The code looks every verdict's frame up in the log and unwraps the result (FeedbackGen::notify_ack /
   notify_advancement), so a verdict for an id that has left the log would be a panic.  Explored: every
   interleaving of sending (window permitting), acknowledging any logged frame once, the receiver
   moving the window base (which culls the log to base - tail), and frames expiring by age (any
   prefix of the log may be forgotten at any time - step() forgets by send time).
     VerdictsInLog   every verdict names a frame that is still in the log when it is produced
     RbWithinLog     the reorder buffer's base never falls behind the log's base nor runs past its end *)
EXTENDS Feedback, TLC

CONSTANTS W, TailSz, MaxSteps           \* window size, log tail size; Span = W + TailSz

VARIABLES logBase, next, winBase, acked, rb, bad, steps
vars == <<logBase, next, winBase, acked, rb, bad, steps>>

InLog(id) == Sub(id, logBase) < Sub(next, logBase)
LogIds == {Add(logBase, i) : i \in 0..(Sub(next, logBase) - 1)}

Init == logBase = IdMod - 1 /\ next = IdMod - 1 /\ winBase = IdMod - 1 /\ acked = {} /\ rb = RbNew(IdMod - 1) /\ bad = {} /\ steps = 0

Outside(out) == {out[i][1] : i \in {k \in 1..Len(out) : ~InLog(out[k][1])}}

Send == /\ Sub(next, winBase) < W
        /\ next' = Add(next, 1)
        /\ UNCHANGED <<logBase, winBase, acked, rb, bad>>

Ack == \E id \in LogIds \ acked :
        /\ acked' = acked \cup {id}
        /\ IF CanPut(rb, id)
           THEN LET r == Put(rb, id) IN rb' = r[1] /\ bad' = bad \cup (IF Outside(r[2]) # {} THEN {"verdict-for-a-forgotten-frame"} ELSE {})
           ELSE UNCHANGED <<rb, bad>>
        /\ UNCHANGED <<logBase, next, winBase>>

(* cull_log_entries(nb): notify_advancement first (if the reorder buffer can advance), then drain the log *)
Cull(nb) ==
    /\ IF CanAdvance(rb, nb)
       THEN LET r == Advance(rb, nb) IN rb' = r[1] /\ bad' = bad \cup (IF Outside(r[2]) # {} THEN {"verdict-for-a-forgotten-frame"} ELSE {})
       ELSE UNCHANGED <<rb, bad>>
    /\ logBase' = nb
    /\ acked' = {a \in acked : Sub(a, nb) < Sub(next, nb)}

AdvanceWindow == \E nb \in 0..(IdMod - 1) :
        /\ Sub(nb, winBase) >= 1 /\ Sub(nb, winBase) <= Sub(next, winBase)
        /\ winBase' = nb
        /\ LET mb == Sub(nb, TailSz)
               d == Sub(mb, logBase)
           IN IF d # 0 /\ d <= Sub(next, logBase) THEN Cull(mb) ELSE UNCHANGED <<logBase, acked, rb, bad>>
        /\ UNCHANGED next

Forget == \E cut \in 0..(IdMod - 1) :
        /\ Sub(cut, logBase) >= 1 /\ Sub(cut, logBase) <= Sub(next, logBase)
        /\ Cull(cut)
        /\ UNCHANGED <<next, winBase>>

Next == UNCHANGED steps /\ (Send \/ Ack \/ AdvanceWindow \/ Forget)      \* the id space wraps, so the state space is finite without a step bound
Spec == Init /\ [][Next]_vars

VerdictsInLog == bad = {}
RbWithinLog == Sub(rb.base, logBase) <= Sub(next, logBase)
=====================================================================================
