------------------------------------ MODULE Emit ------------------------------------
(* The packing of datagrams into data frames by one flush (emit.rs, DataFrameEmitter, driven by the
   pending loop of HalfConnection::emit_data_frames), as a pure function: given the datagrams
   waiting in order (payload length, fragment count of their packet, parent leads), the flush
   credit in bytes and the number of frames the frame transfer window still admits, which frames
   leave - which datagrams each carries and how long it is - and why the flush stopped.

   Rules of the code: a frame may be started while the credit is not negative and the window has
   room; a datagram joins the frame in progress unless the credit no longer covers the bytes already
   in the frame (the frame leaves, the flush ends "size limited"), or the frame would exceed 1472
   bytes or 127 datagrams (the frame leaves and the datagram starts the next one); every frame that
   leaves is charged to the credit in full. *)
EXTENDS Integers, Sequences, FiniteSets

MaxFrame == 1472
MaxCount == 127                   \* min(2^20 / (2 * 4096), 127)
FrameOverhead == 10               \* type, frame id, count + nonce, CRC

(* header size of a datagram by encoding (Codec.tla: DgMicro / DgSmall / large) *)
Hdr(d) == IF d.last = 0 /\ d.len < 64 /\ d.wpl < 128 /\ d.cpl < 256 THEN 6
          ELSE IF d.last = 0 /\ d.len < 256 THEN 9 ELSE 14
Enc(d) == Hdr(d) + d.len

(* st: [alloc, room, cur (indices of the datagrams in the frame in progress), csize, frames, stop] *)
Start(credit, room) == [alloc |-> credit, room |-> room, cur |-> <<>>, csize |-> 0, frames |-> <<>>, stop |-> "none"]

Finalize(st) == IF st.cur = <<>> THEN st
                ELSE [st EXCEPT !.frames = Append(@, [dgs |-> st.cur, len |-> st.csize]), !.alloc = @ - st.csize,
                                !.room = @ - 1, !.cur = <<>>, !.csize = 0]

NewFrame(st, i, d) == IF st.alloc < 0 THEN [st EXCEPT !.stop = "size"]
                      ELSE IF st.room <= 0 THEN [st EXCEPT !.stop = "window"]
                      ELSE [st EXCEPT !.cur = <<i>>, !.csize = FrameOverhead + Enc(d)]

Push(st, i, d) ==
    IF st.cur # <<>> THEN
        (IF st.alloc - st.csize < 0 THEN [Finalize(st) EXCEPT !.stop = "size"]
         ELSE IF st.csize + Enc(d) > MaxFrame \/ Len(st.cur) >= MaxCount THEN NewFrame(Finalize(st), i, d)
         ELSE [st EXCEPT !.cur = Append(@, i), !.csize = @ + Enc(d)])
    ELSE NewFrame(st, i, d)

RECURSIVE PushAll(_, _, _)
PushAll(st, dgs, i) == IF i > Len(dgs) \/ st.stop # "none" THEN st ELSE PushAll(Push(st, i, dgs[i]), dgs, i + 1)

(* the whole flush: push in order until refused, then the frame in progress (if any) leaves *)
Flush(dgs, credit, room) == Finalize(PushAll(Start(credit, room), dgs, 1))

\* ------------------------------------------------------------------------------ acknowledgement frames
(* The same for the acknowledgement frames of one flush (AckFrameEmitter under emit_ack_frames): n ack groups are
   owed (9 bytes each, 15 bytes of frame overhead), `dud` says that a sync frame must be answered even if no group
   is owed (an empty ack frame).  A frame is started while the credit is not negative; a group joins the frame in
   progress unless the credit no longer covers the bytes already in it (the frame leaves, the flush ends) or the
   frame would exceed 1472 bytes (it leaves and the group starts the next one).  Result: the number of groups in
   each frame that leaves, and whether the flush was cut short. *)
AckOverhead == 15
GroupSize == 9
AckLen(k) == AckOverhead + GroupSize * k

AckStart(credit) == [alloc |-> credit, cur |-> -1, frames |-> <<>>, stop |-> FALSE]
AckFinalize(st) == IF st.cur < 0 THEN st ELSE [st EXCEPT !.frames = Append(@, st.cur), !.alloc = @ - AckLen(st.cur), !.cur = -1]
AckNew(st, k) == IF st.alloc < 0 THEN [st EXCEPT !.stop = TRUE] ELSE [st EXCEPT !.cur = k]
AckDud(st) == IF st.cur >= 0 THEN st ELSE AckNew(st, 0)
AckPush(st) ==
    IF st.cur >= 0 THEN
        (IF st.alloc - AckLen(st.cur) < 0 THEN [AckFinalize(st) EXCEPT !.stop = TRUE]
         ELSE IF AckLen(st.cur) + GroupSize > MaxFrame THEN AckNew(AckFinalize(st), 1)
         ELSE [st EXCEPT !.cur = @ + 1])
    ELSE AckNew(st, 1)
RECURSIVE AckPushAll(_, _)
AckPushAll(st, n) == IF n = 0 \/ st.stop THEN st ELSE AckPushAll(AckPush(st), n - 1)
AckFlush(n, credit, dud) ==
    LET s0 == IF dud THEN AckDud(AckStart(credit)) ELSE AckStart(credit) IN
    IF s0.stop THEN s0 ELSE AckFinalize(AckPushAll(s0, n))
=====================================================================================
