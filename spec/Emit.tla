------------------------------------ MODULE Emit ------------------------------------
(* The packing of datagrams into data frames by one flush (emit.rs, DataFrameEmitter, driven by the
   pending loop of HalfConnection::emit_data_frames), as a pure function: given the datagrams
   waiting in order (payload length, fragment count of their packet, parent leads), the flush
   credit in bytes and the number of frames the frame transfer window still admits, which frames
   leave - which datagrams each carries and how long it is - and why the flush stopped.

   Rules of the code: a frame may be started while the credit is not negative and the window has
   room; a datagram joins the frame in progress unless the credit no longer covers the bytes already
   in the frame (the frame leaves, the flush ends "size limited"), or the frame would exceed 1472
   bytes or 127 datagrams (the frame leaves and the datagram starts the next one); every frame that
   leaves is charged to the credit in full. *)
EXTENDS Integers, Sequences, FiniteSets

MaxFrame == 1472
MaxCount == 127                   \* min(2^20 / (2 * 4096), 127)
FrameOverhead == 10               \* type, frame id, count + nonce, CRC

(* header size of a datagram by encoding (Codec.tla: DgMicro / DgSmall / large) *)
Hdr(d) == IF d.last = 0 /\ d.len < 64 /\ d.wpl < 128 /\ d.cpl < 256 THEN 6
          ELSE IF d.last = 0 /\ d.len < 256 THEN 9 ELSE 14
Enc(d) == Hdr(d) + d.len

(* st: [alloc, room, cur (indices of the datagrams in the frame in progress), csize, frames, stop] *)
Start(credit, room) == [alloc |-> credit, room |-> room, cur |-> <<>>, csize |-> 0, frames |-> <<>>, stop |-> "none"]

Finalize(st) == IF st.cur = <<>> THEN st
                ELSE [st EXCEPT !.frames = Append(@, [dgs |-> st.cur, len |-> st.csize]), !.alloc = @ - st.csize,
                                !.room = @ - 1, !.cur = <<>>, !.csize = 0]

NewFrame(st, i, d) == IF st.alloc < 0 THEN [st EXCEPT !.stop = "size"]
                      ELSE IF st.room <= 0 THEN [st EXCEPT !.stop = "window"]
                      ELSE [st EXCEPT !.cur = <<i>>, !.csize = FrameOverhead + Enc(d)]

Push(st, i, d) ==
    IF st.cur # <<>> THEN
        (IF st.alloc - st.csize < 0 THEN [Finalize(st) EXCEPT !.stop = "size"]
         ELSE IF st.csize + Enc(d) > MaxFrame \/ Len(st.cur) >= MaxCount THEN NewFrame(Finalize(st), i, d)
         ELSE [st EXCEPT !.cur = Append(@, i), !.csize = @ + Enc(d)])
    ELSE NewFrame(st, i, d)

RECURSIVE PushAll(_, _, _)
PushAll(st, dgs, i) == IF i > Len(dgs) \/ st.stop # "none" THEN st ELSE PushAll(Push(st, i, dgs[i]), dgs, i + 1)

(* the whole flush: push in order until refused, then the frame in progress (if any) leaves *)
Flush(dgs, credit, room) == Finalize(PushAll(Start(credit, room), dgs, 1))
=====================================================================================
