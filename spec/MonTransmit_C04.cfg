SPECIFICATION Spec
INVARIANT C04
INVARIANT ObsReport
POSTCONDITION Accepted
CHECK_DEADLOCK FALSE
ALIAS Brief
