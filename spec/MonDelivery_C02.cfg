SPECIFICATION Spec
INVARIANT C02
POSTCONDITION Accepted
CHECK_DEADLOCK FALSE
ALIAS Brief
