SPECIFICATION Spec
INVARIANT C17
POSTCONDITION Accepted
CHECK_DEADLOCK FALSE
ALIAS Brief
