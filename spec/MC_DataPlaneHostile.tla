---------------------------- MODULE MC_DataPlaneHostile ----------------------------
(* The data-plane model with a hostile peer, explored exhaustively for small constants: besides
   loss and duplication, the fault budget may be spent on forged acknowledgement frames handed to
   the sender (ForgeA) and forged data / sync frames handed to the receiver (ForgeD), drawn from the
   sets around every guard (DataPlane.tla).  What must survive a hostile peer is each endpoint's
   own integrity: the type and window invariants (every access into the frame log, the send window
   and the receive window stays inside its domain - an out-of-domain access is a TLC evaluation
   error, the model-level counterpart of a panic), the receive-allocation bound (C06, receiver
   half), and the counters staying non-negative.  Statements about what is delivered are statements
   about honest endpoints and are not checked here. *)
EXTENDS DataPlane

StateConstraint == nframes <= MaxFrames /\ nsyncs <= MaxSyncs

(* one dimension at a time (the full products are explored by simulation in DataPlaneGen): ack groups with genuine
   window bases, window bases without groups; data frames with every frame id x packet id and plain leads, every
   lead combination and every fragment shape at the two most interesting packet ids *)
HAcks == {f \in ForgedAcks : (f.fbase = fWinBase /\ f.pbase = sBase) \/ f.groups = <<>>}
HData == {f \in ForgedData : \/ (f.wpl = 0 /\ f.cpl = 0 /\ f.frag = 0 /\ f.last = 0)
                             \/ (f.fid = rfBase /\ f.pid \in {rBase, PAdd(rBase, 1)} /\ f.frag = 0 /\ f.last = 0)
                             \/ (f.fid = rfBase /\ f.pid \in {rBase, PAdd(rBase, 1)} /\ f.wpl = 0 /\ f.cpl = 0)}
HNext == \/ Next
         \/ \E f \in HAcks : ForgeA(f)
         \/ \E f \in HData \cup ForgedSyncs : ForgeD(f)
HSpec == Init /\ [][HNext]_vars

(* C15 on the model, as action properties:
   - an acknowledgement frame none of whose groups is valid (unknown frames, or a nonce that does not reproduce the
     parity of the frames it claims) acts on the sender exactly like the same frame without any group;
   - once an acknowledgement frame has been applied, applying its groups again changes neither the frame log nor
     the fragment acknowledgements (a duplicated or replayed copy has no further effect). *)
InvalidGroupsNoEffect ==
    [][\A f \in HAcks : (ForgeA(f) /\ \A i \in 1..Len(f.groups) : ~GroupValid(fLog, fLogBase, f.groups[i]))
                            => HandleAck([f EXCEPT !.groups = <<>>])]_vars
AckIdempotent ==
    [][\A f \in BagToSet(netA) : DeliverA(f) => ApplyGroups(fLog', fLogBase', sWin', f.groups) = <<fLog', sWin'>>]_vars

CountersSane == sAlloc >= 0 /\ sTotal >= 0 /\ rAlloc >= 0 /\ \A c \in Chans : chCount[c] >= 0
====================================================================================
