SPECIFICATION Spec
CONSTANTS
    MSS = 1472
    Floor = 23
    Cap = 2000000000
    MaxN = 10
    Ceilings = {20000}
    Dts = {0, 3000}
    Samples = {100}
    Recvs = {0, 100000}
    Xbs = {10, 500000}
INVARIANT RateBounds
INVARIANT NoRiseWithoutFb
INVARIANT AtMostHalved
INVARIANT SlowStartDoubling
INVARIANT EquationBound
INVARIANT TimerArmed
INVARIANT ModeMonotone
CHECK_DEADLOCK FALSE
