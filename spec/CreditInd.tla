----------------------------------- MODULE CreditInd -----------------------------------
(* The repaired credit mechanism of Credit.tla (variant "repaired") without a bound on time, with an inductive
   invariant: Apalache discharges  Init => IndInv  and  IndInv /\ Next => IndInv'  for fixed constants, so RateBound
   holds after ANY number of steps, ticks and frames - TLC checks Credit.tla up to MaxT ticks only.

   The invariant says what the credit "knows" about the wire: the bytes still in the observer's running bucket, drained
   up to now, are at most the part of the cap that is neither held as credit nor about to be credited for the time
   elapsed since the reference time:
        Drained <= max(0, (Cap - alloc) * RateD - (NowU - ref))
   A refill moves bytes from the elapsed time into the credit and leaves the right-hand side unchanged (or makes both
   sides zero when the cap clips); a frame of len bytes raises both sides by len * RateD. *)
EXTENDS Integers

CONSTANTS
    \* @type: Int;
    Cap,
    \* @type: Int;
    FrameMax,
    \* @type: Int;
    RateN,
    \* @type: Int;
    RateD

VARIABLES
    \* @type: Int;
    alloc,
    \* @type: Int;
    ref,
    \* @type: Int;
    now,
    \* @type: Int;
    level,
    \* @type: Int;
    tEmit

ConstInit == Cap = 6 /\ FrameMax = 3 /\ RateN = 5 /\ RateD = 2
ConstInitB == Cap = 4 /\ FrameMax = 3 /\ RateN = 7 /\ RateD = 3
ConstInitC == Cap = 0 /\ FrameMax = 2 /\ RateN = 2 /\ RateD = 5

Min(a, b) == IF a < b THEN a ELSE b
Max(a, b) == IF a > b THEN a ELSE b
NowU == now * RateN

Init == alloc \in {0, Cap} /\ ref = 0 /\ now = 0 /\ level = 0 /\ tEmit = 0

FillAlloc == LET new == (NowU - ref) \div RateD IN Min(alloc + new, Cap)
FillRef == LET new == (NowU - ref) \div RateD IN
           IF alloc + new >= Cap THEN NowU ELSE IF new = 0 THEN ref ELSE ref + new * RateD

Step == alloc' = FillAlloc /\ ref' = FillRef /\ UNCHANGED <<now, level, tEmit>>
Frame == \E len \in 1..FrameMax :
            /\ FillAlloc >= 0
            /\ alloc' = FillAlloc - len /\ ref' = FillRef
            /\ level' = len * RateD + Max(0, level - (NowU - tEmit))
            /\ tEmit' = NowU
            /\ UNCHANGED now
Tick == now' = now + 1 /\ UNCHANGED <<alloc, ref, level, tEmit>>
Next == Step \/ Tick \/ Frame

RateBound == level <= (Cap + FrameMax) * RateD
Drained == Max(0, level - (NowU - tEmit))
TypeInv == /\ alloc >= 0 - FrameMax /\ alloc <= Cap /\ now >= 0 /\ ref >= 0 /\ ref <= NowU /\ tEmit >= 0 /\ tEmit <= NowU /\ level >= 0
IndInv == /\ TypeInv
          /\ RateBound
          /\ Drained <= Max(0, (Cap - alloc) * RateD - (NowU - ref))
IndInit == /\ alloc \in Int /\ ref \in Int /\ now \in Int /\ level \in Int /\ tEmit \in Int
           /\ IndInv
NotReachable == ~(alloc = 3 /\ level = 5 /\ now = 4)
Weak == level <= (Cap + FrameMax) * RateD - 1
==========================================================================================
