SPECIFICATION Spec
INVARIANT C03
INVARIANT Report
POSTCONDITION Accepted
CHECK_DEADLOCK FALSE
ALIAS Brief
