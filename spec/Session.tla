---------------------------------- MODULE Session ---------------------------------
(* Implementation-shaped model of the session layer (src/client/mod.rs, src/server/mod.rs):
   the handshake with nonces, the connection states Pending / Active / Closing / Closed, the
   resend and time-out timers, the server's connection limits and its replies to unverified
   addresses.  The step functions are pure operators from (state, inbox, time) to (state,
   events, frames), written in the order Client::step and Server::step work:
       handle every queued frame in arrival order -> timers -> start closing if asked.
   The data plane is abstracted to "a data/sync/ack frame arrived" (it refreshes the active
   time-out) and to an oracle for `is_send_pending()` in flushing disconnects.

   The module is used twice: MC_Session drives it with an abstract environment (connect,
   disconnect, drop, network loss / duplication / reordering / forgery, clock ticks) and TLC
   checks the session properties on it; SessionTrace drives it in lock-step with recorded
   executions of the real Client / Server and reports every divergence. *)
EXTENDS Integers, Sequences, FiniteSets, TLC

CONSTANTS
    Resend,         \* 2000 ms between handshake / disconnect resends
    Retries,        \* 10 resends
    Linger,         \* 20000 ms in Closed
    ReAckAnyNonce   \* FALSE = the code as repaired (F13); TRUE = an active client confirms any SYN-ACK echoing its nonce

NoNonce == <<-1, -1>>

\* ------------------------------------------------------------------------------------ frames
\* [ty |-> "SYN", nonce, version, psize, alloc] [ty |-> "SYNACK", nonce_ack, nonce] [ty |-> "ACK", nonce_ack]
\* [ty |-> "ERR", nonce_ack, err] [ty |-> "DISC"] [ty |-> "DISCACK"] [ty |-> "DATA"] (any data-plane frame)
Syn(n) == [ty |-> "SYN", nonce |-> n]
SynAck(na, n) == [ty |-> "SYNACK", nonce_ack |-> na, nonce |-> n]
\* the SYN-ACK a server with configuration cfg sends: it advertises its own limits
SynAckL(na, n, cfg) == [ty |-> "SYNACK", nonce_ack |-> na, nonce |-> n, rate |-> cfg.rrate, psize |-> cfg.psize, alloc |-> cfg.alloc]
Field(f, k) == IF k \in DOMAIN f THEN f[k] ELSE 0

\* ------------------------------------------------------------------------ negotiated limits
(* What each end holds for an established connection: the peer's receive allocation (in whole fragments) and the
   smaller of its own max_send_rate and the peer's max_receive_rate, taken from the handshake frame it accepted. *)
FragCeil(n) == ((n + 1447) \div 1448) * 1448
MinOf(a, b) == IF a < b THEN a ELSE b
Ack(na) == [ty |-> "ACK", nonce_ack |-> na]
Err(na, e) == [ty |-> "ERR", nonce_ack |-> na, err |-> e]
Disc == [ty |-> "DISC"]
DiscAck == [ty |-> "DISCACK"]

ErrEv(e) == CASE e = "Version" -> "ErrorVersion" [] e = "Config" -> "ErrorConfig" [] e = "ServerFull" -> "ErrorServerFull" [] OTHER -> "ErrorUnknown"

\* ==================================================================================== client
\* state: [st, nonce, remote, at, left, deadline, disc, T]   st in Pending Active Closing Closed Fin
ClientInitL(nonce, t, T, srate) == [st |-> "Pending", nonce |-> nonce, remote |-> NoNonce, at |-> t + Resend, left |-> Retries, deadline |-> 0, disc |-> "none", T |-> T,
                                     srate |-> srate, pAlloc |-> 0, pRate |-> 0]      \* srate: its max_send_rate; pAlloc, pRate: what the server advertised
ClientInit(nonce, t, T) == ClientInitL(nonce, t, T, 0)
CLimits(c) == [tx_alloc |-> FragCeil(c.pAlloc), rate |-> MinOf(c.srate, c.pRate)]

\* result accumulator: [c |-> state, ev |-> events, out |-> frames]
CHandle(r, f, t) ==
    LET c == r.c IN
    CASE f.ty = "SYNACK" ->
            IF c.st = "Pending" /\ f.nonce_ack = c.nonce
            THEN [c |-> [c EXCEPT !.st = "Active", !.remote = f.nonce, !.deadline = t + c.T, !.disc = "none", !.pAlloc = Field(f, "alloc"), !.pRate = Field(f, "rate")],
                  ev |-> Append(r.ev, "Connect"), out |-> Append(r.out, Ack(f.nonce))]
            ELSE IF c.st = "Active" /\ f.nonce_ack = c.nonce /\ (ReAckAnyNonce \/ f.nonce = c.remote)
            THEN [r EXCEPT !.out = Append(@, Ack(f.nonce))]
            ELSE r
      [] f.ty = "ERR" ->
            IF c.st = "Pending" /\ f.nonce_ack = c.nonce
            THEN [r EXCEPT !.c.st = "Fin", !.ev = Append(@, ErrEv(f.err))]
            ELSE r
      [] f.ty = "DISC" ->
            IF c.st \in {"Active", "Closing"}
            THEN [c |-> [c EXCEPT !.st = "Closed", !.deadline = t + Linger], ev |-> Append(r.ev, "Disconnect"), out |-> Append(r.out, DiscAck)]
            ELSE IF c.st = "Closed" THEN [r EXCEPT !.out = Append(@, DiscAck)]
            ELSE r
      [] f.ty = "DISCACK" ->
            IF c.st = "Closing" THEN [r EXCEPT !.c.st = "Fin", !.ev = Append(@, "Disconnect")] ELSE r
      [] f.ty = "DATA" ->
            IF c.st = "Active" THEN [r EXCEPT !.c.deadline = t + c.T] ELSE r
      [] OTHER -> r

RECURSIVE CHandleAll(_, _, _)
CHandleAll(r, q, t) == IF q = <<>> THEN r ELSE CHandleAll(CHandle(r, Head(q), t), Tail(q), t)

CTimers(r, t) ==
    LET c == r.c IN
    CASE c.st = "Pending" /\ t >= c.at ->
            IF c.left > 0 THEN [r EXCEPT !.c.at = t + Resend, !.c.left = c.left - 1, !.out = Append(@, Syn(c.nonce))]
            ELSE [r EXCEPT !.c.st = "Fin", !.ev = Append(@, "ErrorTimeout")]
      [] c.st = "Active" /\ t >= c.deadline -> [r EXCEPT !.c.st = "Fin", !.ev = Append(@, "ErrorTimeout")]
      [] c.st = "Closing" /\ t >= c.at ->
            IF c.left > 0 THEN [r EXCEPT !.c.at = t + Resend, !.c.left = c.left - 1, !.out = Append(@, Disc)]
            ELSE [r EXCEPT !.c.st = "Fin", !.ev = Append(@, "ErrorTimeout")]
      [] c.st = "Closed" /\ t >= c.deadline -> [r EXCEPT !.c.st = "Fin"]
      [] OTHER -> r

(* `flushed` is the oracle for !is_send_pending() *)
CClose(r, t, flushed) ==
    LET c == r.c IN
    IF c.st = "Active" /\ (c.disc = "now" \/ (c.disc = "flush" /\ flushed))
    THEN [r EXCEPT !.c.st = "Closing", !.c.at = t + Resend, !.c.left = Retries, !.out = Append(@, Disc)]
    ELSE r

ClientStep(c, inbox, t, flushed) == CClose(CTimers(CHandleAll([c |-> c, ev |-> <<>>, out |-> <<>>], inbox, t), t), t, flushed)

ClientDisconnect(c, now) ==      \* Client::disconnect / disconnect_now
    IF c.st = "Pending" THEN [c EXCEPT !.st = "Fin"]
    ELSE IF c.st = "Active" THEN [c EXCEPT !.disc = IF now THEN "now" ELSE "flush"]
    ELSE c

\* ==================================================================================== server
\* configuration: [maxActive, maxTotal, herr, T, psize, alloc, rate, rrate]   (rate = max_send_rate, rrate = max_receive_rate)
\* per address: [st, local, remote, at, left, deadline, disc, pAlloc, pRate]   st in None Pending Active Closing Closed
NoEntry == [st |-> "None", local |-> NoNonce, remote |-> NoNonce, at |-> 0, left |-> 0, deadline |-> 0, disc |-> "none", pAlloc |-> 0, pRate |-> 0]
SLimits(e, cfg) == [tx_alloc |-> FragCeil(e.pAlloc), rate |-> MinOf(cfg.rate, e.pRate)]
Tracked(e) == e.st # "None"

\* accumulator: [s |-> [addr -> entry], ev |-> seq of <<addr, event>>, out |-> seq of <<addr, frame>>]
NumTracked(s) == Cardinality({a \in DOMAIN s : Tracked(s[a])})
NumActiveOrPending(s) == Cardinality({a \in DOMAIN s : s[a].st \in {"Pending", "Active"}})

(* `fresh` is the nonce the server draws if it accepts this SYN *)
SHandle(r, a, f, t, cfg, fresh) ==
    LET e == r.s[a] IN
    CASE f.ty = "SYN" ->
            IF Tracked(e) THEN r
            ELSE IF f.version # 3
                 THEN [r EXCEPT !.out = Append(@, <<a, Err(f.nonce, "Version")>>), !.ev = IF cfg.herr THEN Append(@, <<a, "ErrorVersion">>) ELSE @]
            ELSE IF NumTracked(r.s) >= cfg.maxTotal \/ NumActiveOrPending(r.s) >= cfg.maxActive
                 THEN [r EXCEPT !.out = Append(@, <<a, Err(f.nonce, "ServerFull")>>), !.ev = IF cfg.herr THEN Append(@, <<a, "ErrorServerFull">>) ELSE @]
            ELSE IF f.alloc < cfg.psize \/ f.psize > cfg.alloc
                 THEN [r EXCEPT !.out = Append(@, <<a, Err(f.nonce, "Config")>>), !.ev = IF cfg.herr THEN Append(@, <<a, "ErrorConfig">>) ELSE @]
            ELSE [r EXCEPT !.s[a] = [st |-> "Pending", local |-> fresh, remote |-> f.nonce, at |-> t + Resend, left |-> Retries, deadline |-> 0, disc |-> "none",
                                     pAlloc |-> f.alloc, pRate |-> Field(f, "rate")],
                           !.out = Append(@, <<a, SynAckL(f.nonce, fresh, cfg)>>)]
      [] f.ty = "ACK" ->
            IF e.st = "Pending" /\ f.nonce_ack = e.local
            THEN [r EXCEPT !.s[a].st = "Active", !.s[a].deadline = t + cfg.T, !.ev = Append(@, <<a, "Connect">>)]
            ELSE r
      [] f.ty = "DISC" ->
            IF e.st \in {"Active", "Closing"}
            THEN [r EXCEPT !.s[a].st = "Closed", !.s[a].deadline = t + Linger, !.ev = Append(@, <<a, "Disconnect">>), !.out = Append(@, <<a, DiscAck>>)]
            ELSE IF e.st = "Closed" THEN [r EXCEPT !.out = Append(@, <<a, DiscAck>>)]
            ELSE r
      [] f.ty = "DISCACK" ->
            IF e.st = "Closing" THEN [r EXCEPT !.s[a] = NoEntry, !.ev = Append(@, <<a, "Disconnect">>)] ELSE r
      [] f.ty = "DATA" ->
            IF e.st = "Active" THEN [r EXCEPT !.s[a].deadline = t + cfg.T] ELSE r
      [] OTHER -> r

\* inbox: sequence of <<addr, frame, fresh>>
RECURSIVE SHandleAll(_, _, _, _)
SHandleAll(r, q, t, cfg) == IF q = <<>> THEN r ELSE SHandleAll(SHandle(r, Head(q)[1], Head(q)[2], t, cfg, Head(q)[3]), Tail(q), t, cfg)

(* timers of one address *)
STimer(r, a, t, cfg) ==
    LET e == r.s[a] IN
    CASE e.st = "Pending" /\ t >= e.at ->
            IF e.left > 0 THEN [r EXCEPT !.s[a].at = t + Resend, !.s[a].left = e.left - 1, !.out = Append(@, <<a, SynAckL(e.remote, e.local, cfg)>>)]
            ELSE [r EXCEPT !.s[a] = NoEntry, !.ev = IF cfg.herr THEN Append(@, <<a, "ErrorTimeout">>) ELSE @]
      [] e.st = "Closing" /\ t >= e.at ->
            IF e.left > 0 THEN [r EXCEPT !.s[a].at = t + Resend, !.s[a].left = e.left - 1, !.out = Append(@, <<a, Disc>>)]
            ELSE [r EXCEPT !.s[a] = NoEntry, !.ev = Append(@, <<a, "ErrorTimeout">>)]
      [] e.st = "Closed" /\ t >= e.deadline -> [r EXCEPT !.s[a] = NoEntry]
      [] e.st = "Active" /\ t >= e.deadline -> [r EXCEPT !.s[a] = NoEntry, !.ev = Append(@, <<a, "ErrorTimeout">>)]
      [] OTHER -> r

SClose(r, a, t, flushed) ==
    LET e == r.s[a] IN
    IF e.st = "Active" /\ (e.disc = "now" \/ (e.disc = "flush" /\ a \in flushed))
    THEN [r EXCEPT !.s[a].st = "Closing", !.s[a].at = t + Resend, !.s[a].left = Retries, !.out = Append(@, <<a, Disc>>)]
    ELSE r

RECURSIVE STimersAll(_, _, _, _)
STimersAll(r, S, t, cfg) == IF S = {} THEN r ELSE LET a == CHOOSE x \in S : TRUE IN STimersAll(STimer(r, a, t, cfg), S \ {a}, t, cfg)
RECURSIVE SCloseAll(_, _, _, _)
SCloseAll(r, S, t, flushed) == IF S = {} THEN r ELSE LET a == CHOOSE x \in S : TRUE IN SCloseAll(SClose(r, a, t, flushed), S \ {a}, t, flushed)

ServerStep(s, inbox, t, cfg, flushed) ==
    LET r1 == SHandleAll([s |-> s, ev |-> <<>>, out |-> <<>>], inbox, t, cfg)
        r2 == STimersAll(r1, DOMAIN s, t, cfg)
    IN SCloseAll(r2, DOMAIN s, t, flushed)

ServerDisconnect(s, a, now) == IF s[a].st = "Active" THEN [s EXCEPT ![a].disc = IF now THEN "now" ELSE "flush"] ELSE s
ServerDrop(s, a) == [s EXCEPT ![a] = NoEntry]
====================================================================================
