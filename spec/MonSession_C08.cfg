SPECIFICATION Spec
INVARIANT C08
POSTCONDITION Accepted
CHECK_DEADLOCK FALSE
ALIAS Brief
