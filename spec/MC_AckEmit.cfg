SPECIFICATION Spec
INVARIANT AckFrameBounds
INVARIANT AckWithinCredit
INVARIANT AckAccounted
INVARIANT Case
CHECK_DEADLOCK FALSE
