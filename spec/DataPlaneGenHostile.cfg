SPECIFICATION GenSpecHostile
CONSTANTS
    PW = 2
    FW = 2
    PMod = 16
    FMod = 64
    PBase0 = 14
    FBase0 = 62
    Chans = {0, 1}
    Modes = {"T", "U", "P", "R"}
    FragCounts = {1, 2}
    TxAlloc = 3
    RxAlloc = 3
    MaxSend = 5
    MaxFrames = 24
    MaxSyncs = 6
    MaxEpoch = 3
    NetCap = 3
    Faults = 6
    GW = 32
    Keepalive = FALSE
    FreeNonce = TRUE
    Depth = 50
CONSTRAINT Bounded
INVARIANT Emit
INVARIANT WindowsConsistent
CHECK_DEADLOCK FALSE
