--------------------------------- MODULE MC_Codec --------------------------------
(* Boundary frames of all nine types: every threshold of the three datagram encodings
   (payload 63/64, 255/256; window lead 127/128; channel lead 255/256; fragmented or not),
   channel bits 4 and 5, 20-bit sequence ids, 0 / 1 / 2 / 127 datagrams, 0 / 1 / 2 / 161 ack
   groups, both flags of sync frames, all error codes, extreme 32-bit values.
   TLC checks the size invariants of the encoding on each frame and writes the frames as ndjson
   vectors; the harness pushes every vector through the real Frame::write / Frame::read and
   MonCodec validates the result against Encode. *)
EXTENDS Codec, TLC, Json, IOUtils, FiniteSets, SequencesExt

W32 == { <<0, 0>>, <<65535, 65535>>, <<1, 2>>, <<32768, 0>>, <<4660, 22136>> }
Pay(n) == [i \in 1..n |-> (i * 7 + n) % 256]

Handshakes ==
       { [t |-> "SYN", version |-> v, nonce |-> n, rate |-> <<0, 0>>, psize |-> <<65535, 65535>>, alloc |-> n] : v \in {0, 3, 255}, n \in W32 }
  \cup { [t |-> "SYN", version |-> 3, nonce |-> <<1, 2>>, rate |-> a, psize |-> b, alloc |-> <<0, 1>>] : a \in W32, b \in W32 }
  \cup { [t |-> "SYNACK", nonce_ack |-> a, nonce |-> b, rate |-> b, psize |-> a, alloc |-> <<0, 1448>>] : a \in W32, b \in W32 }
  \cup { [t |-> "ACK", nonce_ack |-> a] : a \in W32 }
  \cup { [t |-> "ERR", nonce_ack |-> a, err |-> e] : a \in W32, e \in {"Version", "Config", "ServerFull"} }
  \cup { [t |-> "DISC"], [t |-> "DISCACK"] }

Syncs == { [t |-> "SYNC", has_f |-> hf, has_p |-> hp, nfid |-> a, npid |-> b] : hf \in BOOLEAN, hp \in BOOLEAN, a \in {<<0, 0>>, <<65535, 65535>>}, b \in {<<0, 1>>, <<15, 65535>>, <<65535, 65535>>} }

Group(a, b, n) == [base |-> a, bits |-> b, nonce |-> n]
Acks ==
       { [t |-> "ACKF", fbase |-> a, pbase |-> b, groups |-> <<>>] : a \in W32, b \in W32 }
  \cup { [t |-> "ACKF", fbase |-> <<1, 1>>, pbase |-> <<0, 5>>, groups |-> << Group(a, b, n) >>] : a \in W32, b \in W32, n \in BOOLEAN }
  \cup { [t |-> "ACKF", fbase |-> <<1, 1>>, pbase |-> <<0, 5>>, groups |-> << Group(<<0, 0>>, <<0, 1>>, TRUE), Group(<<0, 32>>, <<65535, 65535>>, FALSE) >>] }
  \cup { [t |-> "ACKF", fbase |-> <<65535, 0>>, pbase |-> <<15, 65535>>, groups |-> [i \in 1..k |-> Group(<<0, i * 32>>, <<i, 65535 - i>>, i % 2 = 0)]] : k \in {160, 161} }

Dg(seq, ch, wpl, cpl, frag, last, n) == [seq |-> seq, ch |-> ch, wpl |-> wpl, cpl |-> cpl, frag |-> frag, last |-> last, data |-> Pay(n)]
Lens == {0, 1, 63, 64, 255, 256, 1448}
Seqs == { <<0, 0>>, <<15, 65535>>, <<8, 1>> }
Chans == {0, 15, 16, 31, 32, 47, 63}

OneDg ==
       { Dg(<<8, 1>>, 3, w, c, 0, 0, n) : w \in {0, 127, 128, 255, 256, 65535}, c \in {0, 255, 256, 65535}, n \in Lens }
  \cup { Dg(<<8, 1>>, 3, w, c, f, la, n) : w \in {0, 128}, c \in {0, 256}, la \in {1, 65535}, f \in {0, 1}, n \in {0, 5, 1448} }
  \cup { Dg(s, ch, 1, 1, 0, 0, n) : s \in Seqs, ch \in Chans, n \in {0, 63, 64, 300} }
  \cup { Dg(<<15, 65535>>, 63, 65535, 65535, 65535, 65535, 1448) }

Datas ==
       { [t |-> "DATA", seq |-> s, nonce |-> n, dgs |-> <<>>] : s \in W32, n \in BOOLEAN }
  \cup { [t |-> "DATA", seq |-> <<65535, 65534>>, nonce |-> (Len(d.data) % 2 = 0), dgs |-> << d >>] : d \in OneDg }
  \cup { [t |-> "DATA", seq |-> <<0, 7>>, nonce |-> TRUE, dgs |-> << Dg(<<0, 1>>, 16, 127, 255, 0, 0, 63), Dg(<<0, 2>>, 32, 128, 0, 0, 0, 10), Dg(<<0, 3>>, 48, 2, 2, 1, 2, 1200) >>] }
  \cup { [t |-> "DATA", seq |-> <<0, 8>>, nonce |-> FALSE, dgs |-> [i \in 1..127 |-> Dg(<<0, i>>, i % 64, i, 2 * i, 0, 0, i % 5)]] }
  \cup { [t |-> "DATA", seq |-> <<0, 9>>, nonce |-> FALSE, dgs |-> [i \in 1..k |-> Dg(<<i % 16, 65535 - i>>, 63, 127, 255, 0, 0, 5)]] : k \in {2, 126, 127} }

Frames == Handshakes \cup Syncs \cup Acks \cup Datas

VARIABLE f
Init == f \in Frames
Next == UNCHANGED f

SizeOk ==
    LET n == Len(Encode(f)) + 4 IN
    /\ n <= MaxFrame
    /\ f.t \in {"SYN", "SYNACK", "ACK", "ERR", "DISC", "DISCACK", "SYNC"} => n = WireLen(f.t)
    /\ f.t = "ACKF" => n = 15 + 9 * Len(f.groups)
    /\ f.t = "DATA" => n >= 10 + 6 * Len(f.dgs)
    /\ \A i \in 1..Len(Encode(f)) : Encode(f)[i] \in 0..255

(* ----- the receiving direction (Decode) on the same frames ----- *)

(* what a receiver can know of a frame: ids a sync frame does not carry are read as zero *)
Norm(x) == IF x.t = "SYNC" THEN [x EXCEPT !.nfid = IF x.has_f THEN @ ELSE <<0, 0>>, !.npid = IF x.has_p THEN @ ELSE <<0, 0>>] ELSE x

RoundTrip == Decode(Encode(f)) = Norm(f)

(* malformed variants of the encoding of f, derived from the format: every way of having bytes missing or left over
   (all proper prefixes of short frames, the first and last prefixes of long ones, one to three bytes appended), every
   count or length field one off in either direction, the type byte replaced, the error code out of range *)
SetByte(b, i, v) == [b EXCEPT ![i] = v]
CutShort(b) == LET n == Len(b) IN
    IF n <= 120 THEN { SubSeq(b, 1, k) : k \in 0..(n - 1) }
    ELSE { SubSeq(b, 1, k) : k \in (0..24) \cup ((n - 16)..(n - 1)) }
Extensions(b) == { b \o x : x \in { <<0>>, <<128>>, <<192>>, <<255>>, <<1, 0>>, <<200, 0>>, <<0, 0, 0>>, <<128, 5, 0>> } }
OffByOne(b, i) == IF i > Len(b) THEN {} ELSE { SetByte(b, i, (b[i] + 1) % 256), SetByte(b, i, (b[i] + 255) % 256) }
FieldMutants(b) ==
    CASE b[1] = 10 -> OffByOne(b, 6) \cup OffByOne(b, 7) \cup OffByOne(b, 8) \cup OffByOne(b, 9)      \* datagram count; first datagram's type / length bytes
      [] b[1] = 12 -> OffByOne(b, 11) \cup OffByOne(b, 10)                                             \* ack group count
      [] b[1] = 3 -> { SetByte(b, 6, v) : v \in {3, 4, 128, 255} }                                     \* error code
      [] OTHER -> {}
(* a data frame announcing one datagram more than it holds, followed by the beginning of a datagram header of each
   encoding that is too short to be one (1..13 bytes; headers are 6 / 9 / 14 bytes) *)
Tails == { <<first>> \o Zeros(k - 1) : first \in {0, 63}, k \in 1..5 } \cup { <<first>> \o Zeros(k - 1) : first \in {128, 191}, k \in 1..8 }
         \cup { <<first>> \o Zeros(k - 1) : first \in {192, 255}, k \in 1..13 }
CountTail(b) == IF b[1] = 10 /\ Len(b) <= 100 /\ b[6] % 128 < 127 THEN { SetByte(b, 6, b[6] + 1) \o x : x \in Tails } ELSE {}
TypeMutants(b) == { SetByte(b, 1, v) : v \in {6, 7, 8, 9, 13, 14, 127, 128, 255} }
Malformed(b) == CutShort(b) \cup Extensions(b) \cup TypeMutants(b) \cup CountTail(b)

(* "wrong length, trailing or missing bytes, unknown type or enum value": on the model, none of these decodes *)
MalformedRejected == \A m \in Malformed(Encode(f)) : Decode(m) = Rejected
(* a field mutant may be well-formed again (a length byte one larger with one more payload byte is not among them,
   but a changed lead or channel bit is): whatever it is, Decode must be total on it *)
FieldMutantsDecided == \A m \in FieldMutants(Encode(f)) : Decode(m).t \in {"REJECT", "DATA", "ACKF", "ERR"}

Variants(b) == Malformed(b) \cup FieldMutants(b)
(* Inputs too short to be derived from a frame - the empty body (a datagram that is nothing but a checksum: the CRC of the
   empty string is 0, so four zero bytes are "CRC-valid"), every single byte, every second byte after each known and some
   unknown type bytes - are enumerated by the harness (uvh codec --mutants) and judged by MonCodec against Decode like
   every other input.  (Defining that set here made TLC's eager evaluation of constant definitions overflow its stack in
   one start out of three.) *)
DumpMutants == ndJsonSerialize(IOEnv.MUTANTS, SetToSeq(UNION { { [body |-> m] : m \in Variants(Encode(g)) } : g \in { h \in Frames : Len(Encode(h)) <= 400 } }))

Dump == ndJsonSerialize(IOEnv.VECTORS, SetToSeq(Frames))
Written == Dump /\ DumpMutants            \* POSTCONDITION: evaluates Dump once, writing the vectors file
====================================================================================
