--------------------------------- MODULE MC_Feedback ---------------------------------
(* Exhaustive exploration of Feedback.tla: every sequence of out-of-order acknowledgements and
   window advances over a small id space (ids wrap around), the verdict stream feeding the loss
   interval history with send times that grow with the frame id.

   Invariants (checked in every reachable state; `bad` collects what a step did wrong):
     stream-in-order      verdicts come out for consecutive ids, each id once
     acked-iff-put        a verdict says "acked" exactly for the ids that were put
     three-later-acks     Put declares a frame lost only when three later frames have been put
     HeldSane             at most two held ids, all put, beyond the base, nearest first
     IntervalsSane        at most nine intervals, lengths >= 1, end times strictly newer first,
                          loss event rate in (0, 1] once there is history and 0 before *)
EXTENDS Feedback, TLC

CONSTANTS MaxJudged, Gap, Rtts

VARIABLES rb, li, puts, judged, bad
vars == <<rb, li, puts, judged, bad>>

Init == rb = RbNew(IdMod - 2) /\ li = LiNew /\ puts = {} /\ judged = 0 /\ bad = {}

SendTime(n) == n * Gap          \* n-th frame judged so far (send times grow with the id)

RECURSIVE Feed(_, _, _, _)
Feed(q, out, n, rtt) == IF out = <<>> THEN q
                        ELSE Feed(IF Head(out)[2] THEN PushAck(q) ELSE PushNack(q, SendTime(n), rtt), Tail(out), n + 1, rtt)

Check(s, out, isPut, P) ==        \* P: the ids put so far, including the one put by this call
    LET ids == [i \in 1..Len(out) |-> out[i][1]] IN
    (IF \E i \in 1..Len(out) : ids[i] # Add(s.base, i - 1) THEN {"stream-in-order"} ELSE {})
    \cup (IF \E i \in 1..Len(out) : out[i][2] # (ids[i] \in P) THEN {"acked-iff-put"} ELSE {})
    \cup (IF isPut /\ \E i \in 1..Len(out) : ~out[i][2] /\ Cardinality({p \in P : Sub(p, ids[i]) >= 1 /\ Sub(p, ids[i]) < Span}) < 3
          THEN {"three-later-acks"} ELSE {})

(* ids the base has passed leave the put set at once (the id space wraps: they will be used again) *)
Prune(P, base) == {p \in P : Sub(p, base) < Span}

Step(r, isPut, P) ==
    \E rtt \in Rtts :
        /\ rb' = r[1]
        /\ li' = Feed(li, r[2], judged, rtt)
        /\ judged' = judged + Len(r[2])
        /\ bad' = bad \cup Check(rb, r[2], isPut, P)
        /\ puts' = Prune(P, r[1].base)

DoPut == \E id \in 0..(IdMod - 1) :
            /\ CanPut(rb, id) /\ id \notin puts
            /\ Step(Put(rb, id), TRUE, puts \cup {id})
DoAdvance == \E nb \in 0..(IdMod - 1) :
            /\ CanAdvance(rb, nb)
            /\ Step(Advance(rb, nb), FALSE, puts)

Next == judged < MaxJudged /\ (DoPut \/ DoAdvance)
Spec == Init /\ [][Next]_vars

NoBadStep == bad = {}
HeldSane == /\ Len(rb.held) <= 2
            /\ \A i \in 1..Len(rb.held) : rb.held[i] \in puts /\ Sub(rb.held[i], rb.base) >= 1 /\ Sub(rb.held[i], rb.base) < Span
            /\ (Len(rb.held) = 2 => Sub(rb.held[1], rb.base) < Sub(rb.held[2], rb.base))
IntervalsSane ==
    /\ Len(li) <= 9
    /\ \A i \in 1..Len(li) : li[i].len >= 1
    /\ \A i \in 1..(Len(li) - 1) : li[i].end > li[i + 1].end
    /\ LET p == LossRate(li) IN IF li = <<>> THEN p[1] = 0 ELSE p[1] > 0 /\ p[1] <= p[2]
=====================================================================================
