---------------------------------- MODULE MC_RecvSync ----------------------------------
(* MC_Recv with the sender's sync frames: the receiver half of DataPlane.tla alone, every script of a window of packets
   of an honest sender, the datagrams handed over in any order and any number of times, receive() at any moment - and
   sync frames offering a packet-window resynchronisation, handed over at ANY later time (delayed, duplicated, after
   newer data).  Which sync frames can exist follows from emit_sync_frame: the sender offers next_packet_id = k only
   while nothing awaits (re)sending, i.e. every Reliable packet it has numbered - the packets below k - has been
   acknowledged, and before it numbers packet k.  In the receiver's terms: sync(k) becomes possible at a moment at which
   every Reliable packet below k has been handed over and no packet from k on has; it stays possible for ever after
   (history variable `legal`).  Checked: InOrderAtMostOnce (C01), ReliableNeverSkipped (C02), RxAllocBound (C06).
   MC_RecvSync_endwalk.cfg overrides ResyncBoundedByEnd with TRUE (the slip of the seeded change C02_b7) and must
   violate ReliableNeverSkipped. *)
EXTENDS DataPlane

CONSTANTS MaxHandled, MaxSyncHanded
VARIABLES script, handed, legal, nsync
rvars == <<vars, script, handed, legal, nsync>>

N == MaxSend
Scripts == [1..N -> [ch : Chans, mode : Modes]]
LastR(s, i, c) == LET S == {j \in 1..(i - 1) : s[j].mode = "R" /\ (c = -1 \/ s[j].ch = c)} IN IF S = {} THEN 0 ELSE i - (CHOOSE m \in S : \A x \in S : x <= m)
Frame(i) == [t |-> "D", fid |-> rfBase, nonce |-> FALSE, pid |-> PAdd(PBase0, i - 1), ch |-> script[i].ch,
             wpl |-> LastR(script, i, -1), cpl |-> LastR(script, i, script[i].ch), frag |-> 0, last |-> 0, uid |-> i]

(* sync(k): next packet id = the id of packet k + 1 (k packets numbered so far), k in 1..N *)
PossibleNow(h, k) == /\ \A i \in 1..k : script[i].mode = "R" => i \in h
                     /\ \A i \in (k + 1)..N : i \notin h
                     /\ \E i \in 1..k : script[i].mode # "R" \/ i \in h      \* (something numbered at all)
SyncFrameFor(k) == [t |-> "S", nfid |-> None, npid |-> PAdd(PBase0, k)]

RInit == /\ script \in Scripts /\ handed = {} /\ legal = {} /\ nsync = 0
         /\ InitWith([i \in 1..N |-> [ch |-> script[i].ch, mode |-> script[i].mode, nf |-> 1]])
RNext == /\ UNCHANGED script
         /\ \/ \E i \in 1..N :
                 /\ FSub(rfBase, FBase0) < MaxHandled
                 /\ PSub(PAdd(PBase0, i - 1), rBase) < PW \/ PSub(rBase, PAdd(PBase0, i - 1)) <= PW
                 /\ HandleData(Frame(i))
                 /\ handed' = handed \cup {i}
                 /\ legal' = legal \cup {k \in 1..N : PossibleNow(handed \cup {i}, k)}
                 /\ UNCHANGED <<submitted, delivered, sender, netD, netA, faults, nsync>>
            \/ \E k \in legal :
                 /\ nsync < MaxSyncHanded
                 /\ HandleSync(SyncFrameFor(k))
                 /\ nsync' = nsync + 1
                 /\ UNCHANGED <<submitted, delivered, sender, netD, netA, faults, handed, legal>>
            \/ Receive /\ UNCHANGED <<handed, legal, nsync>>
RSpec == RInit /\ [][RNext]_rvars

TrueDef == TRUE
RecvView == <<script, handed, legal, nsync, delivered, asm, rAlloc, rBase, rEnd, entry, entryFlag, dataFlag, chBase, chCount, chReady, winReady, FSub(rfBase, FBase0)>>
=====================================================================================
