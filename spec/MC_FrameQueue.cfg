SPECIFICATION Spec
CONSTANTS
    IdMod = 40
    Span = 10
    W = 5
    TailSz = 5
    MaxSteps = 16
INVARIANT VerdictsInLog
INVARIANT RbWithinLog
CHECK_DEADLOCK FALSE
