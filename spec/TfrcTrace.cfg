SPECIFICATION Spec
CONSTANTS
    MSS = 1472
    Floor = 23
    Cap = 2000000000
INVARIANT CONF
INVARIANT Report
POSTCONDITION Accepted
CHECK_DEADLOCK FALSE
ALIAS Brief
