---------------------------------- MODULE CrcSyn ---------------------------------
(* Binds Crc.tla to the code: the table and the single-bit syndromes extracted by the harness
   from the real crc::compute (file named by env CRCJSON) must equal what this specification
   derives from the polynomial.

   syn[b][d] is the change of the CRC of a 1468-byte message when bit b of the byte that has d
   bytes after it is flipped.  Because every byte step is affine, the change caused by one
   flipped bit starts as TableLin[2^b] and is pushed through StepLin once per following byte.
   One behaviour per bit b walks d = 0..1467; the invariant compares each value with the code's.
   The same run checks, as ASSUME-level facts about the extracted table, that it is the table of
   the polynomial and that it is affine (65536 pairs) -- which with the byte-step structure makes
   the whole function affine, the premise of CrcLowWeight. *)
EXTENDS Crc, TLC, Json, IOUtils, FiniteSets

J == JsonDeserialize(IOEnv.CRCJSON)
CodeTable == [i \in 0..255 |-> <<J.table[i + 1][1], J.table[i + 1][2]>>]
CodeSyn(b, d) == <<J.syn[b + 1][d + 1][1], J.syn[b + 1][d + 1][2]>>
NBytes == J.nbytes

TableMatches == \A i \in 0..255 : CodeTable[i] = Table[i]
TableAffine == \A i \in 0..255, j \in 0..255 : Xor32(Xor32(CodeTable[i], CodeTable[j]), CodeTable[0]) = CodeTable[i ^^ j]
SamplesOk == J.affine_ok = J.affine_n /\ J.shift_ok = J.shift_n /\ J.affine_n >= 1000 /\ J.shift_n >= 1000

ASSUME TableMatches
ASSUME TableAffine
ASSUME SamplesOk

VARIABLES b, d, delta
Init == b \in 0..7 /\ d = 0 /\ delta = TableLin[2 ^ b]
Next == d < NBytes - 1 /\ d' = d + 1 /\ delta' = StepLin(delta) /\ b' = b

SyndromeMatches == delta = CodeSyn(b, d)
NonZero == delta # <<0, 0>>
====================================================================================
