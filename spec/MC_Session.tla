--------------------------------- MODULE MC_Session -------------------------------
(* Session.tla under an abstract environment: clients connect and disconnect, the server
   application disconnects or drops, the network loses, duplicates, delays and reorders
   datagrams, an off-path forger injects handshake / disconnect frames with guessed nonces,
   and a global clock ticks.  TLC checks the session properties over every interleaving:

   C07  both ends Active => they agree on both nonces; a server-side connection exists only
        for a nonce the client itself acknowledged; incompatible or wrong-version requests
        never connect
   C08  the per-connection event streams are well formed
   C10  Error(Timeout) on an established connection only after T without a data frame
   C17  established <= MaxActive, tracked <= MaxTotal
   C18  bytes sent to an unverified address stay below the bytes received from it        *)
EXTENDS Session, Bags

CONSTANTS Clients, MaxActive, MaxTotal, TC, TS, Tmax, NetCap, Faults, Forgeries, DataFrames, Herr

SetToSeqC == CHOOSE s \in [1..Cardinality(Clients) -> Clients] : \A i, j \in 1..Cardinality(Clients) : i # j => s[i] # s[j]
ClientNonce(c) == <<1, CHOOSE i \in 1..Cardinality(Clients) : c = SetToSeqC[i]>>
GuessNonce == <<9, 9>>          \* what an off-path forger can come up with: never a nonce drawn by an endpoint

\* the two ends advertise different limits (client: allocation 2000 bytes, receive rate 7; server: allocation 3000, receive rate 9),
\* compatible with each other's max_packet_size (10), so that "each end holds what the other advertised" is not vacuous
Cfg == [maxActive |-> MaxActive, maxTotal |-> MaxTotal, herr |-> Herr, T |-> TS, psize |-> 10, alloc |-> 3000, rate |-> 8, rrate |-> 9]
CRate == 5          \* a client's max_send_rate
NoClient == [st |-> "Idle", nonce |-> NoNonce, remote |-> NoNonce, at |-> 0, left |-> 0, deadline |-> 0, disc |-> "none", T |-> TC, srate |-> CRate, pAlloc |-> 0, pRate |-> 0]

VARIABLES cl, sv, net, inC, inS, now, evC, evS, cAcked, heardC, heardS, fresh, faults, forgeries, ndata, bytesIn, bytesOut, verified, viol
vars == <<cl, sv, net, inC, inS, now, evC, evS, cAcked, heardC, heardS, fresh, faults, forgeries, ndata, bytesIn, bytesOut, verified, viol>>

Size(f) == CASE f.ty = "SYN" -> 1472 [] f.ty = "SYNACK" -> 25 [] f.ty = "ACK" -> 9 [] f.ty = "ERR" -> 10 [] f.ty = "DATA" -> 20 [] OTHER -> 5

Init ==
    /\ cl = [c \in Clients |-> NoClient] /\ sv = [c \in Clients |-> NoEntry] /\ net = EmptyBag
    /\ inC = [c \in Clients |-> <<>>] /\ inS = <<>> /\ now = 0
    /\ evC = [c \in Clients |-> <<>>] /\ evS = [c \in Clients |-> <<>>] /\ cAcked = [c \in Clients |-> {}]
    /\ heardC = [c \in Clients |-> 0] /\ heardS = [c \in Clients |-> 0] /\ fresh = 0
    /\ faults = Faults /\ forgeries = Forgeries /\ ndata = DataFrames /\ bytesIn = [c \in Clients |-> 0] /\ bytesOut = [c \in Clients |-> 0]
    /\ verified = [c \in Clients |-> FALSE] /\ viol = {}

Pkt(src, dst, f) == [src |-> src, dst |-> dst, f |-> f]
RECURSIVE AddAll(_, _)
AddAll(b, S) == IF S = <<>> THEN b ELSE AddAll(b (+) SetToBag({Head(S)}), Tail(S))
Room(n) == BagCardinality(net) + n <= NetCap

SynOf(c) == [ty |-> "SYN", nonce |-> ClientNonce(c), version |-> 3, psize |-> 10, alloc |-> 2000, rate |-> 7]

Connect(c) ==
    /\ cl[c].st = "Idle" /\ Room(1)
    /\ cl' = [cl EXCEPT ![c] = ClientInitL(ClientNonce(c), now, TC, CRate)]
    /\ net' = net (+) SetToBag({Pkt(c, "s", SynOf(c))})
    /\ UNCHANGED <<sv, inC, inS, now, evC, evS, cAcked, heardC, heardS, fresh, faults, forgeries, ndata, bytesIn, bytesOut, verified, viol>>

HasData(q) == \E i \in 1..Len(q) : q[i].ty = "DATA"
FixSyn(c, f) == IF f.ty = "SYN" THEN SynOf(c) ELSE f       \* the client's SYN resends carry its parameters

ClientStepA(c, flushed) ==
    /\ cl[c].st \notin {"Idle", "Fin"}
    /\ LET r == ClientStep(cl[c], inC[c], now, flushed)
           outs == [i \in 1..Len(r.out) |-> Pkt(c, "s", FixSyn(c, r.out[i]))]
           wasActive == cl[c].st = "Active"
           heard == IF HasData(inC[c]) \/ (\E i \in 1..Len(r.ev) : r.ev[i] = "Connect") THEN now ELSE heardC[c]
           timedOut == wasActive /\ cl[c].disc = "none" /\ (\E i \in 1..Len(r.ev) : r.ev[i] = "ErrorTimeout")
       IN /\ Room(Len(r.out))
          /\ cl' = [cl EXCEPT ![c] = r.c] /\ inC' = [inC EXCEPT ![c] = <<>>]
          /\ net' = AddAll(net, outs)
          /\ evC' = [evC EXCEPT ![c] = @ \o r.ev]
          /\ cAcked' = [cAcked EXCEPT ![c] = @ \cup {r.out[i].nonce_ack : i \in {j \in 1..Len(r.out) : r.out[j].ty = "ACK"}}]
          /\ heardC' = [heardC EXCEPT ![c] = heard]
          /\ viol' = viol \cup (IF timedOut /\ now < heard + TC THEN {"C10-client-timeout-before-silence"} ELSE {})
    /\ UNCHANGED <<sv, inS, now, evS, heardS, fresh, faults, forgeries, ndata, bytesIn, bytesOut, verified>>

(* the server draws nonces <<2, k>>: distinct from every client nonce and from the forger's guess *)
RECURSIVE Stamp(_, _)
Stamp(q, k) == IF q = <<>> THEN <<>> ELSE <<<<Head(q)[1], Head(q)[2], <<2, k>>>>>> \o Stamp(Tail(q), k + 1)

PerAddr(evs, a) == LET sel == SelectSeq(evs, LAMBDA x : x[1] = a) IN [i \in 1..Len(sel) |-> sel[i][2]]
RECURSIVE OutBytes(_, _)
OutBytes(q, a) == IF q = <<>> THEN 0 ELSE (IF Head(q)[1] = a THEN Size(Head(q)[2]) ELSE 0) + OutBytes(Tail(q), a)
RECURSIVE InBytes(_, _)
InBytes(q, a) == IF q = <<>> THEN 0 ELSE (IF Head(q)[1] = a THEN Size(Head(q)[2]) ELSE 0) + InBytes(Tail(q), a)

ServerStepA(flushed) ==
    /\ LET r == ServerStep(sv, Stamp(inS, fresh), now, Cfg, flushed)
           outs == [i \in 1..Len(r.out) |-> Pkt("s", r.out[i][1], r.out[i][2])]
           connected == {a \in Clients : \E i \in 1..Len(r.ev) : r.ev[i] = <<a, "Connect">>}
           bin == [a \in Clients |-> bytesIn[a] + InBytes(inS, a)]
           bout == [a \in Clients |-> bytesOut[a] + OutBytes(r.out, a)]
           ver == [a \in Clients |-> verified[a] \/ a \in connected]
           heard == [a \in Clients |-> IF (\E i \in 1..Len(inS) : inS[i][1] = a /\ inS[i][2].ty = "DATA") \/ a \in connected THEN now ELSE heardS[a]]
           early == {a \in Clients : sv[a].st = "Active" /\ sv[a].disc = "none" /\ (\E i \in 1..Len(r.ev) : r.ev[i] = <<a, "ErrorTimeout">>) /\ now < heard[a] + TS}
       IN /\ Room(Len(r.out))
          /\ sv' = r.s /\ inS' = <<>> /\ net' = AddAll(net, outs) /\ fresh' = fresh + Len(inS)
          /\ evS' = [a \in Clients |-> evS[a] \o PerAddr(r.ev, a)]
          /\ bytesIn' = bin /\ bytesOut' = bout /\ verified' = ver /\ heardS' = heard
          /\ viol' = viol \cup (IF early # {} THEN {"C10-server-timeout-before-silence"} ELSE {})
                          \cup (IF \E a \in Clients : ~ver[a] /\ bout[a] > 0 /\ bout[a] >= bin[a] THEN {"C18-amplification"} ELSE {})
    /\ UNCHANGED <<cl, inC, now, evC, cAcked, heardC, faults, forgeries, ndata>>

Deliver(p) ==
    /\ BagIn(p, net) /\ net' = net (-) SetToBag({p})
    /\ IF p.dst = "s" THEN inS' = Append(inS, <<p.src, p.f>>) /\ UNCHANGED inC
       ELSE inC' = [inC EXCEPT ![p.dst] = Append(@, p.f)] /\ UNCHANGED inS
    /\ UNCHANGED <<cl, sv, now, evC, evS, cAcked, heardC, heardS, fresh, faults, forgeries, ndata, bytesIn, bytesOut, verified, viol>>

Lose(p) == /\ faults > 0 /\ BagIn(p, net) /\ net' = net (-) SetToBag({p}) /\ faults' = faults - 1
           /\ UNCHANGED <<cl, sv, inC, inS, now, evC, evS, cAcked, heardC, heardS, fresh, forgeries, ndata, bytesIn, bytesOut, verified, viol>>
Dup(p) == /\ faults > 0 /\ BagIn(p, net) /\ Room(1) /\ net' = net (+) SetToBag({p}) /\ faults' = faults - 1
          /\ UNCHANGED <<cl, sv, inC, inS, now, evC, evS, cAcked, heardC, heardS, fresh, forgeries, ndata, bytesIn, bytesOut, verified, viol>>

ForgedFrames == {Ack(GuessNonce), SynAck(GuessNonce, GuessNonce), Err(GuessNonce, "ServerFull"), Disc, DiscAck, [ty |-> "DATA"],
                 [ty |-> "SYN", nonce |-> GuessNonce, version |-> 2, psize |-> 10, alloc |-> 10],
                 [ty |-> "SYN", nonce |-> GuessNonce, version |-> 3, psize |-> 9999, alloc |-> 10],
                 [ty |-> "SYN", nonce |-> GuessNonce, version |-> 3, psize |-> 10, alloc |-> 5000, rate |-> 3]}     \* compatible, other limits
Forge(c, toServer, f) ==
    /\ forgeries > 0 /\ Room(1) /\ forgeries' = forgeries - 1
    /\ net' = net (+) SetToBag({IF toServer THEN Pkt(c, "s", f) ELSE Pkt("s", c, f)})
    /\ UNCHANGED <<cl, sv, inC, inS, now, evC, evS, cAcked, heardC, heardS, fresh, faults, ndata, bytesIn, bytesOut, verified, viol>>

ClientData(c) == /\ cl[c].st = "Active" /\ Room(1) /\ ndata > 0 /\ ndata' = ndata - 1 /\ net' = net (+) SetToBag({Pkt(c, "s", [ty |-> "DATA"])})
                 /\ UNCHANGED <<cl, sv, inC, inS, now, evC, evS, cAcked, heardC, heardS, fresh, faults, forgeries, bytesIn, bytesOut, verified, viol>>
ServerData(c) == /\ sv[c].st = "Active" /\ Room(1) /\ ndata > 0 /\ ndata' = ndata - 1 /\ net' = net (+) SetToBag({Pkt("s", c, [ty |-> "DATA"])})
                 /\ UNCHANGED <<cl, sv, inC, inS, now, evC, evS, cAcked, heardC, heardS, fresh, faults, forgeries, bytesIn, bytesOut, verified, viol>>

AppC(c, n) == /\ cl[c].st \in {"Pending", "Active"} /\ cl[c].disc = "none" /\ cl' = [cl EXCEPT ![c] = ClientDisconnect(@, n)]
              /\ UNCHANGED <<sv, net, inC, inS, now, evC, evS, cAcked, heardC, heardS, fresh, faults, forgeries, ndata, bytesIn, bytesOut, verified, viol>>
AppS(c, n) == /\ sv[c].st = "Active" /\ sv[c].disc = "none" /\ sv' = ServerDisconnect(sv, c, n)
              /\ UNCHANGED <<cl, net, inC, inS, now, evC, evS, cAcked, heardC, heardS, fresh, faults, forgeries, ndata, bytesIn, bytesOut, verified, viol>>
DropS(c) == /\ sv[c].st # "None" /\ sv' = ServerDrop(sv, c) /\ evS' = [evS EXCEPT ![c] = Append(@, "Drop")]
            /\ UNCHANGED <<cl, net, inC, inS, now, evC, cAcked, heardC, heardS, fresh, faults, forgeries, ndata, bytesIn, bytesOut, verified, viol>>

(* time passes only when every datagram handed to an endpoint has been processed (frames still in the network may be late) *)
Tick == /\ now < Tmax /\ inS = <<>> /\ (\A c \in Clients : inC[c] = <<>>) /\ now' = now + 1
        /\ UNCHANGED <<cl, sv, net, inC, inS, evC, evS, cAcked, heardC, heardS, fresh, faults, forgeries, ndata, bytesIn, bytesOut, verified, viol>>

Next ==
    \/ \E c \in Clients : Connect(c) \/ ClientData(c) \/ ServerData(c) \/ DropS(c)
    \/ \E c \in Clients : \E fl \in (IF cl[c].disc = "flush" THEN BOOLEAN ELSE {TRUE}) : ClientStepA(c, fl)
    \/ \E fl \in SUBSET {c \in Clients : sv[c].disc = "flush"} : ServerStepA(fl)
    \/ \E p \in BagToSet(net) : Deliver(p) \/ Lose(p) \/ Dup(p)
    \/ \E c \in Clients, ts \in BOOLEAN, f \in ForgedFrames : Forge(c, ts, f)
    \/ \E c \in Clients, n \in BOOLEAN : AppC(c, n) \/ AppS(c, n)
    \/ Tick

Spec == Init /\ [][Next]_vars

\* ================================================================================ properties
(* [Connect] then at most one terminal, nothing after; server streams restart after a terminal or a drop *)
RECURSIVE WF(_, _, _)
WF(q, st, isClient) ==
    IF q = <<>> THEN TRUE
    ELSE LET e == Head(q) IN
         CASE e = "Connect" -> st = "idle" /\ WF(Tail(q), "conn", isClient)
           [] e = "Disconnect" -> st = "conn" /\ WF(Tail(q), IF isClient THEN "done" ELSE "idle", isClient)
           [] e = "Drop" -> WF(Tail(q), "idle", isClient)
           [] OTHER -> st # "done" /\ WF(Tail(q), IF isClient THEN "done" ELSE "idle", isClient)      \* errors
EventStreamsWellFormed == \A c \in Clients : WF(evC[c], "idle", TRUE) /\ WF(evS[c], "idle", FALSE)

AgreeWhenBothActive == \A c \in Clients : (cl[c].st = "Active" /\ sv[c].st = "Active") => (sv[c].local = cl[c].remote /\ sv[c].remote = cl[c].nonce)
(* both ends established by the same handshake hold each other's advertised limits *)
LimitsAgree == \A c \in Clients : (cl[c].st = "Active" /\ sv[c].st = "Active" /\ sv[c].local = cl[c].remote /\ sv[c].remote = cl[c].nonce) =>
                  /\ SLimits(sv[c], Cfg) = [tx_alloc |-> FragCeil(2000), rate |-> 7]
                  /\ CLimits(cl[c]) = [tx_alloc |-> FragCeil(3000), rate |-> 5]
ServerConnectionsAreAcknowledged == \A c \in Clients : sv[c].st = "Active" => sv[c].local \in cAcked[c]
ClientConnectionsEchoItsNonce == \A c \in Clients : cl[c].st = "Active" => cl[c].remote[1] = 2      \* a nonce the real server drew
Limits == /\ Cardinality({c \in Clients : sv[c].st = "Active"}) <= MaxActive
          /\ Cardinality({c \in Clients : sv[c].st # "None"}) <= MaxTotal
(* C18: until an address has completed the handshake the server has sent it fewer bytes than it received from it *)
NoAmplification == \A c \in Clients : ~verified[c] => (bytesOut[c] = 0 \/ bytesOut[c] < bytesIn[c])
NoViolation == viol = {}
TimeBound == now <= Tmax
====================================================================================
