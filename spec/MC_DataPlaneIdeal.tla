----------------------------- MODULE MC_DataPlaneIdeal -----------------------------
(* C05 on the data-plane model: a network that neither loses, duplicates nor reorders.  The model keeps
   frames in flight in a bag; "in order" is imposed here: of the data / sync frames in flight only the
   one emitted first may be delivered (data frames carry their frame id, a sync frame the id the next
   data frame would get, and a sync frame is emitted only when no data frame can be).  Under that
   network, whatever the applications and timers do:
     GlobalOrder        the packets handed to the receiving application appear in submission order across
                        all channels (uids strictly increasing)
     NothingSkipped     when a packet is delivered, every earlier packet that is not TimeSensitive has
                        been delivered before it
     EverythingArrives  (temporal, under FairSpec) eventually every packet that is not TimeSensitive is
                        delivered and the sender has drained, or the exploration bound on frames is reached *)
EXTENDS DataPlane

StateConstraint == nframes <= MaxFrames /\ nsyncs <= MaxSyncs

Pos(f) == IF f.t = "D" THEN FSub(f.fid, FBase0) ELSE (IF f.nfid = None THEN FSub(fNext, FBase0) ELSE FSub(f.nfid, FBase0))
Oldest(f) == \A g \in BagToSet(netD) : Pos(f) <= Pos(g)

IdealNext ==
    \/ \E c \in Chans, m \in Modes, nf \in FragCounts : AppSend(c, m, nf)
    \/ SenderStep
    \/ Timeout
    \/ \E n \in Nonces : FlushS(n)
    \/ FlushR
    \/ Receive
    \/ \E f \in BagToSet(netD) : Oldest(f) /\ DeliverD(f)
    \/ \E f \in BagToSet(netA) : DeliverA(f)
IdealSpec == Init /\ [][IdealNext]_vars
IdealFair == IdealSpec /\ WF_vars(Timeout) /\ WF_vars(\E n \in Nonces : FlushS(n)) /\ WF_vars(FlushR) /\ WF_vars(Receive)
             /\ WF_vars(\E f \in BagToSet(netD) : Oldest(f) /\ DeliverD(f)) /\ WF_vars(\E f \in BagToSet(netA) : DeliverA(f))

GlobalOrder == \A i \in 1..(Len(delivered) - 1) : delivered[i] < delivered[i + 1]
NothingSkipped == \A i \in 1..Len(delivered) : \A u \in 1..(delivered[i] - 1) :
                      submitted[u].mode # "T" => \E j \in 1..i : delivered[j] = u
AllArrived == \A u \in 1..Len(submitted) : submitted[u].mode # "T" => u \in DeliveredSet
EverythingArrives == <>((AllArrived /\ sq = <<>> /\ pendq = <<>>) \/ nframes >= MaxFrames \/ nsyncs >= MaxSyncs)
=====================================================================================
