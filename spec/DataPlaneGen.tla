------------------------------- MODULE DataPlaneGen ------------------------------
(* Schedule generator for conformance replay: the DataPlane model with a history variable that
   records, for every step, the environment's choice (which action, with which arguments) and
   the projection of the model state the real HalfConnection pair must show after the same call.
   TLC runs it in simulation mode and prints one JSON behaviour per simulated trace; the harness
   (`uvh hc-model`) replays each behaviour in logical mode against the real code and logs want /
   got pairs, which MonConf validates.  Sequence numbers are printed relative to their initial
   values so that the harness can place them next to the real 2^20 / 2^32 wrap-around. *)
EXTENDS DataPlane, Json

CONSTANT Depth
VARIABLE hist

RelP(x) == IF x = None THEN -1 ELSE PSub(x, PBase0)
RelF(x) == IF x = None THEN -1 ELSE FSub(x, FBase0)

SetToSortSeq(S) == LET RECURSIVE R(_) R(T) == IF T = {} THEN <<>> ELSE LET m == CHOOSE x \in T : \A y \in T : x <= y IN <<m>> \o R(T \ {m}) IN R(S)

FrameOut(f) ==
    IF f.t = "D" THEN [t |-> "D", fid |-> RelF(f.fid), nonce |-> f.nonce, pid |-> RelP(f.pid), ch |-> f.ch, wpl |-> f.wpl, cpl |-> f.cpl,
                       frag |-> f.frag, last |-> f.last, uid |-> f.uid]
    ELSE IF f.t = "S" THEN [t |-> "S", nfid |-> RelF(f.nfid), npid |-> RelP(f.npid)]
    ELSE [t |-> "A", fbase |-> RelF(f.fbase), pbase |-> RelP(f.pbase),
          groups |-> [i \in 1..Len(f.groups) |-> [base |-> RelF(f.groups[i].base), bits |-> SetToSortSeq(f.groups[i].bits), nonce |-> f.groups[i].nonce]]]

BagOut(b) == LET S == BagToSet(b) RECURSIVE R(_)
                 R(T) == IF T = {} THEN <<>> ELSE LET f == CHOOSE x \in T : TRUE IN <<[f |-> FrameOut(f), n |-> CopiesIn(f, b)]>> \o R(T \ {f})
             IN R(S)

Proj ==
    [sBase |-> RelP(sBase), sNext |-> RelP(sNext), sAlloc |-> sAlloc, sTotal |-> sTotal, sq |-> Len(sq), pend |-> Len(pendq),
     resend |-> Len(resDue) + Len(resNew), fNext |-> RelF(fNext), fWin |-> RelF(fWinBase), fLog |-> RelF(fLogBase),
     rfBase |-> RelF(rfBase), ackq |-> Len(ackq), syncReply |-> syncReply, rBase |-> RelP(rBase), rEnd |-> RelP(rEnd), rAlloc |-> rAlloc,
     delivered |-> delivered, netD |-> BagOut(netD), netA |-> BagOut(netA)]

Rec(op) == hist' = Append(hist, op @@ [want |-> Proj'])

GenInit == Init /\ hist = <<>>

GenNext ==
    \/ \E c \in Chans, m \in Modes, nf \in FragCounts : AppSend(c, m, nf) /\ Rec([op |-> "send", ch |-> c, mode |-> m, nf |-> nf])
    \/ SenderStep /\ Rec([op |-> "bump"])
    \/ Timeout /\ Rec([op |-> "timeout"])
    \/ \E n \in Nonces : FlushS(n) /\ Rec([op |-> "flushS", nonce |-> n])
    \/ FlushR /\ Rec([op |-> "flushR"])
    \/ Receive /\ Rec([op |-> "receive"])
    \/ \E f \in BagToSet(netD) : \/ DeliverD(f) /\ Rec([op |-> "deliverD", f |-> FrameOut(f)])
                                 \/ LoseD(f) /\ Rec([op |-> "loseD", f |-> FrameOut(f)])
                                 \/ DupD(f) /\ Rec([op |-> "dupD", f |-> FrameOut(f)])
    \/ \E f \in BagToSet(netA) : \/ DeliverA(f) /\ Rec([op |-> "deliverA", f |-> FrameOut(f)])
                                 \/ LoseA(f) /\ Rec([op |-> "loseA", f |-> FrameOut(f)])
                                 \/ DupA(f) /\ Rec([op |-> "dupA", f |-> FrameOut(f)])

GenSpec == GenInit /\ [][GenNext]_<<vars, hist>>

(* the same with a hostile peer: at any step one forged acknowledgement frame (drawn at random from
   ForgedAcks, so that forging does not crowd out the honest successors in simulation mode) may be
   handed to the sender instead *)
\* (bound by \E over a singleton so that the random draw is evaluated once; a LET would be re-evaluated at every use)
GenForge == faults > 0 /\ \E f \in {RandomElement(ForgedAcks)} : ForgeA(f) /\ Rec([op |-> "forgeA", f |-> FrameOut(f)])
\* (one forged frame in three is a sync frame; the set of forged data frames is eighty times larger)
GenForgeD == faults > 0 /\ \E k \in {RandomElement(1..3)} : \E f \in {RandomElement(IF k = 1 THEN ForgedSyncs ELSE ForgedData)} :
                 ForgeD(f) /\ Rec([op |-> "forgeD", f |-> FrameOut(f)])
GenSpecHostile == GenInit /\ [][GenNext \/ GenForge \/ GenForgeD]_<<vars, hist>>

Bounded == nframes <= MaxFrames /\ nsyncs <= MaxSyncs
(* printed once per simulated behaviour, when it reaches the requested depth *)
Emit == Len(hist) = Depth => PrintT(<<"SCHED", ToJson([ops |-> hist, cfg |-> [PW |-> PW, FW |-> FW, PMod |-> PMod, FMod |-> FMod, PBase0 |-> PBase0, FBase0 |-> FBase0,
                                                                          TxAlloc |-> TxAlloc, RxAlloc |-> RxAlloc, Keepalive |-> Keepalive]])>>)
====================================================================================
