SPECIFICATION GenSpec
CONSTANTS
    PW = 4
    FW = 2
    PMod = 16
    FMod = 64
    PBase0 = 14
    FBase0 = 62
    Chans = {0, 1}
    Modes = {"U", "P", "R"}
    FragCounts = {1}
    TxAlloc = 6
    RxAlloc = 6
    MaxSend = 8
    MaxFrames = 40
    MaxSyncs = 6
    MaxEpoch = 3
    NetCap = 5
    Faults = 6
    GW = 32
    Keepalive = FALSE
    FreeNonce = TRUE
    Depth = 70
CONSTRAINT Bounded
INVARIANT Emit
INVARIANT InOrderAtMostOnce
INVARIANT ReliableNeverSkipped
INVARIANT RxAllocBound
INVARIANT TxRespectsPeer
INVARIANT NoPlaceholderBetweenHonest
INVARIANT BufferSizeExact
INVARIANT WindowsConsistent
CHECK_DEADLOCK FALSE
