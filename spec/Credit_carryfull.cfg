SPECIFICATION Spec
CONSTANTS
    Cap = 6
    FrameMax = 3
    RateN = 5
    RateD = 2
    MaxT = 7
    Variant = "carryfull"
INVARIANTS TypeOK RateBound
CHECK_DEADLOCK FALSE
