SPECIFICATION Spec
INVARIANT C16
INVARIANT Report
POSTCONDITION Accepted
CHECK_DEADLOCK FALSE
ALIAS Brief
