SPECIFICATION Spec
CONSTANTS
    Resend = 2
    Retries = 1
    ReAckAnyNonce = FALSE
    Linger = 2
    Clients = {"c0", "c1"}
    MaxActive = 1
    MaxTotal = 2
    TC = 3
    TS = 3
    Tmax = 1
    NetCap = 2
    Faults = 0
    Forgeries = 0
    DataFrames = 0
    Herr = TRUE
INVARIANT EventStreamsWellFormed
INVARIANT AgreeWhenBothActive
INVARIANT LimitsAgree
INVARIANT ServerConnectionsAreAcknowledged
INVARIANT ClientConnectionsEchoItsNonce
INVARIANT Limits
INVARIANT NoViolation
INVARIANT NoAmplification
CHECK_DEADLOCK FALSE
