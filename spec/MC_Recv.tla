------------------------------------ MODULE MC_Recv ------------------------------------
(* The receiver half of DataPlane.tla on its own, exhaustively: an honest sender has numbered a whole
   window of packets (every assignment of channels and modes: the script fixes the parent leads); the
   network hands the receiver any of those datagrams at any time, any number of times, in any order,
   and the application calls receive() whenever it likes.  Frame ids and the ack queue do not influence
   the packet receiver and are hidden from the state (VIEW); the number of datagrams handed over is
   bounded.  Checked: InOrderAtMostOnce (C01), ReliableNeverSkipped (C02), RxAllocBound (C06).
   MC_Recv_marker.cfg overrides MarkerFromZero with TRUE - the slip of the seeded changes for C01 -
   and must violate InOrderAtMostOnce. *)
EXTENDS DataPlane

CONSTANT MaxHandled
VARIABLE script
rvars == <<vars, script>>

N == MaxSend
Scripts == [1..N -> [ch : Chans, mode : Modes]]
LastR(s, i, c) == LET S == {j \in 1..(i - 1) : s[j].mode = "R" /\ (c = -1 \/ s[j].ch = c)} IN IF S = {} THEN 0 ELSE i - (CHOOSE m \in S : \A x \in S : x <= m)
Frame(i) == [t |-> "D", fid |-> rfBase, nonce |-> FALSE, pid |-> PAdd(PBase0, i - 1), ch |-> script[i].ch,
             wpl |-> LastR(script, i, -1), cpl |-> LastR(script, i, script[i].ch), frag |-> 0, last |-> 0, uid |-> i]

RInit == /\ script \in Scripts
         /\ InitWith([i \in 1..N |-> [ch |-> script[i].ch, mode |-> script[i].mode, nf |-> 1]])
RNext == /\ UNCHANGED script
         /\ \/ \E i \in 1..N :
                 /\ FSub(rfBase, FBase0) < MaxHandled
                 /\ PSub(PAdd(PBase0, i - 1), rBase) < PW \/ PSub(rBase, PAdd(PBase0, i - 1)) <= PW
                 /\ HandleData(Frame(i))
                 /\ UNCHANGED <<submitted, delivered, sender, netD, netA, faults>>
            \/ Receive
RSpec == RInit /\ [][RNext]_rvars

TrueDef == TRUE
RecvView == <<script, delivered, asm, rAlloc, rBase, rEnd, entry, entryFlag, dataFlag, chBase, chCount, chReady, winReady, FSub(rfBase, FBase0)>>
=====================================================================================
