--------------------------------- MODULE FeedbackGen ---------------------------------
(* Behaviour generator for conformance replay of Feedback.tla into the real ReorderBuffer and
   LossIntervalQueue: TLC simulation prints, per behaviour, the calls (put / advance with their
   argument, the RTT in force) and what the model expects after each: the verdicts in call-back
   order, the buffer's base and held ids, the loss intervals and the loss event rate as a fraction.
   `uvh feedback-model` replays them (ids are mapped relative to the base, next to the 2^32 wrap). *)
EXTENDS MC_Feedback, Json

CONSTANT Depth
VARIABLE hist

Want(out) == [out |-> [i \in 1..Len(out) |-> [id |-> out[i][1], acked |-> out[i][2]]],
              base |-> rb'.base, held |-> rb'.held,
              li |-> [i \in 1..Len(li') |-> [end |-> li'[i].end, len |-> li'[i].len]],
              pnum |-> LossRate(li')[1], pden |-> LossRate(li')[2]]

GenInit == Init /\ hist = <<>>
GenPut == \E id \in 0..(IdMod - 1), rtt \in Rtts :
            /\ CanPut(rb, id) /\ id \notin puts
            /\ LET r == Put(rb, id) P == puts \cup {id} IN
               /\ puts' = Prune(P, r[1].base)
               /\ rb' = r[1] /\ li' = Feed(li, r[2], judged, rtt) /\ judged' = judged + Len(r[2]) /\ bad' = bad \cup Check(rb, r[2], TRUE, P)
               /\ hist' = Append(hist, [op |-> "put", id |-> id, rtt |-> rtt, n0 |-> judged, prevbase |-> rb.base, want |-> Want(r[2])])
GenAdvance == \E nb \in 0..(IdMod - 1), rtt \in Rtts :
            /\ CanAdvance(rb, nb)
            /\ LET r == Advance(rb, nb) IN
               /\ puts' = Prune(puts, r[1].base)
               /\ rb' = r[1] /\ li' = Feed(li, r[2], judged, rtt) /\ judged' = judged + Len(r[2]) /\ bad' = bad \cup Check(rb, r[2], FALSE, puts)
               /\ hist' = Append(hist, [op |-> "advance", id |-> nb, rtt |-> rtt, n0 |-> judged, prevbase |-> rb.base, want |-> Want(r[2])])
GenNext == Len(hist) < Depth /\ (GenPut \/ GenAdvance)
GenSpec == GenInit /\ [][GenNext]_<<vars, hist>>

Emit == Len(hist) = Depth => PrintT(<<"SCHED", ToJson([ops |-> hist, cfg |-> [IdMod |-> IdMod, Span |-> Span, Gap |-> Gap]])>>)
=====================================================================================
