SPECIFICATION Spec
INVARIANT C05
POSTCONDITION Accepted
CHECK_DEADLOCK FALSE
ALIAS Brief
