SPECIFICATION GenSpec
CONSTANTS
    IdMod = 64
    Span = 8
    MaxJudged = 100000
    Gap = 10
    Rtts = {5, 25, 200}
    Depth = 40
INVARIANT Emit
INVARIANT NoBadStep
INVARIANT HeldSane
INVARIANT IntervalsSane
CHECK_DEADLOCK FALSE
