---------------------------------- MODULE MC_Tfrc ----------------------------------
(* Exhaustive exploration of the rate controller model Tfrc.tla over every sequence of calls
   (frame sent / step with feedback / step without) up to MaxN calls, with feedback fields, time
   gaps and equation values drawn from small sets that hit every branch: RTT sample 0, receive
   rate 0 and saturated, loss increase or not, rate limited or not, silences shorter and longer
   than the no-feedback timer.  The floating-point oracles of Tfrc.tla are replaced here by
   integer stand-ins of the same shape (moving average of the RTT, 4380/R, 736/R, 0.85 X_recv,
   max(4R, 2s/X)); the real values are what TfrcTrace feeds in when it replays the code.

   Checked on every reachable state (C14, on the design):
     RateBounds          Floor <= X <= ceiling once the first frame was sent
     NoRiseWithoutFb     a step without feedback never raises X
     AtMostHalved        ... and at most halves it (never below the floor)
     SlowStartDoubling   one feedback in slow start at most doubles X, or sets the initial window
     EquationBound       once loss was reported X never exceeds the equation rate (or the floor)
     TimerArmed          the no-feedback timer is armed whenever a frame has been sent *)
EXTENDS Tfrc, TLC

CONSTANTS MaxN, Ceilings, Dts, Samples, Recvs, Xbs

VARIABLES s, now, n, last    \* last: [kind, x, mode, init] of the state before the latest call
vars == <<s, now, n, last>>

NewRtt(old, sample) == IF old = -1 THEN sample ELSE (9 * old + sample) \div 10
InitOf(rtt) == IF rtt <= 0 THEN Cap ELSE Min(4380000 \div rtt, Cap)
LossInitOf(rtt) == IF rtt <= 0 THEN Cap ELSE Min(736000 \div rtt, Cap)
RtoOf(rtt, x) == Max(4 * Max(rtt, 0), 2944000 \div x)
R85(v) == IF v >= Cap THEN (Cap \div 100) * 85 ELSE (v \div 100) * 85 + ((v % 100) * 85) \div 100

Init == /\ s \in {New(c) : c \in Ceilings} /\ now = 0 /\ n = 0
        /\ last = [kind |-> "none", x |-> MSS, mode |-> 0, init |-> 0]

Remember(k, i) == last' = [kind |-> k, x |-> s.x, mode |-> s.mode, init |-> i]

Sent == \E d \in Dts :
    /\ now' = now + d /\ s' = NotifySent(s, now') /\ Remember("sent", 0)

Tick == \E d \in Dts :
    /\ now' = now + d
    /\ LET i == InitOf(s.rtt)
           \* the RTO is computed from the rate after the change; take it from the result
           pre == Step(s, now', FALSE, 0, FALSE, FALSE, [rto_ms |-> 0, init |-> i])
           o == [rto_ms |-> RtoOf(s.rtt, pre.x), init |-> i]
       IN s' = Step(s, now', FALSE, 0, FALSE, FALSE, o) /\ Remember("tick", i)

Fb == \E d \in Dts, sm \in Samples, rv \in Recvs, li \in BOOLEAN, rl \in BOOLEAN, xb \in Xbs :
    /\ now' = now + d
    /\ LET r == NewRtt(s.rtt, sm)
           o == [rtt_ms |-> r, rto_ms |-> RtoOf(r, s.x), init |-> InitOf(r), lossinit |-> LossInitOf(r), xbps |-> xb, recv85 |-> R85(rv)]
       IN s' = Step(s, now', TRUE, rv, li, rl, o) /\ Remember("fb", InitOf(r))

Next == n < MaxN /\ n' = n + 1 /\ (Sent \/ Tick \/ Fb)
Spec == Init /\ [][Next]_vars

RateBounds == s.x >= Floor /\ s.x <= Max(s.ceil, Floor) /\ (s.mode = 0 => s.x = MSS)
NoRiseWithoutFb == last.kind = "tick" => s.x <= last.x
AtMostHalved == last.kind = "tick" => s.x >= Max(last.x \div 2, Floor) \/ s.x = last.x
SlowStartDoubling == last.kind = "fb" /\ last.mode = 1 /\ s.mode = 1 => s.x <= Max(Sat2(last.x), last.init)
EquationBound == s.mode = 2 /\ last.kind = "fb" => s.x <= Max(s.tcp, Floor)
TimerArmed == s.mode # 0 => s.nofb # -1 /\ Len(s.xrecv) >= 1
ModeMonotone == last.mode = 2 => s.mode = 2     \* the controller never returns to slow start
====================================================================================
