----------------------------------- MODULE MC_Emit -----------------------------------
(* Every flush of up to N waiting datagrams drawn from one representative of each encoding and size
   class, every credit class and every amount of window room: the frames Emit.tla produces satisfy
     FrameBounds   no frame longer than 1472 bytes (C04) or with more than 127 datagrams
     InOrder       the frames carry the waiting datagrams in order, without gap or repetition (C05 / C12)
     WithinCredit  nothing leaves on negative credit; the bytes sent exceed the credit by less than one frame (C13)
     WithinWindow  no more frames than the transfer window admits
     Maximal       if the flush was not refused, everything waiting has left
   One state per case; TLC evaluates the function in the invariants. *)
EXTENDS Emit, TLC

CONSTANTS N, Kinds, Credits, Rooms

Dg(len, last) == [len |-> len, last |-> last, wpl |-> 0, cpl |-> 0]
KindsDef == {Dg(10, 0), Dg(100, 0), Dg(700, 0), Dg(1448, 0), Dg(1448, 1), Dg(1, 1)}   \* micro, small, large, full, fragment, tail
TinyDef == {Dg(0, 0)}
CreditsDef == {-1, 0, 50, 800, 1471, 1472, 3000, 100000}

RECURSIVE SeqsUpTo(_)
SeqsUpTo(n) == IF n = 0 THEN {<<>>} ELSE LET S == SeqsUpTo(n - 1) IN S \cup {Append(s, k) : s \in {x \in S : Len(x) = n - 1}, k \in Kinds}

VARIABLES dgs, credit, room
Init == dgs \in SeqsUpTo(N) /\ credit \in Credits /\ room \in Rooms
Next == UNCHANGED <<dgs, credit, room>>
Spec == Init /\ [][Next]_<<dgs, credit, room>>

R == Flush(dgs, credit, room)
RECURSIVE Concat(_)
Concat(fs) == IF fs = <<>> THEN <<>> ELSE Head(fs).dgs \o Concat(Tail(fs))
RECURSIVE Total(_)
Total(fs) == IF fs = <<>> THEN 0 ELSE Head(fs).len + Total(Tail(fs))

FrameBounds == \A i \in 1..Len(R.frames) : R.frames[i].len <= MaxFrame /\ Len(R.frames[i].dgs) <= MaxCount /\ Len(R.frames[i].dgs) >= 1
InOrder == LET c == Concat(R.frames) IN \A i \in 1..Len(c) : c[i] = i
WithinCredit == /\ (credit < 0 => R.frames = <<>>)
                /\ (R.frames # <<>> => Total(R.frames) - R.frames[Len(R.frames)].len <= credit)
WithinWindow == Len(R.frames) <= room
Maximal == R.stop = "none" => Len(Concat(R.frames)) = Len(dgs)
=====================================================================================
