SPECIFICATION Spec
INVARIANT C11
POSTCONDITION Accepted
CHECK_DEADLOCK FALSE
ALIAS Brief
