SPECIFICATION Spec
INVARIANT C02Safety
POSTCONDITION Accepted
CHECK_DEADLOCK FALSE
ALIAS Brief
