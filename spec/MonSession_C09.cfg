SPECIFICATION Spec
INVARIANT C09
POSTCONDITION Accepted
CHECK_DEADLOCK FALSE
ALIAS Brief
