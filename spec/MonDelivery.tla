------------------------------- MODULE MonDelivery -------------------------------
(* Property monitor for the delivery properties, validated by TLC against ndjson traces
   recorded from the real HalfConnection / Client / Server.

   C01  per-channel delivery is in order, at most once, byte-exact, to the right endpoint
   C02  a Reliable packet is never skipped; at quiescence every Reliable packet has been
        delivered once, nothing is pending and the send buffer size is zero
   C05  on an ideal network the global submission order is preserved and every packet that
        is not TimeSensitive is delivered
   C04  every delivered payload is byte-identical to the submitted one (reassembly exact)
   C11  probes submitted after a fault phase are delivered (TimeSensitive: or never sent)

   The monitor is total: it consumes every well-formed line and records violations in
   `bad`; the properties are invariants over `bad`.  A rejected trace (a line that cannot
   be consumed) means the harness broke an environment assumption, never a verdict. *)
EXTENDS TraceIO

VARIABLES
    sub,        \* sequence over uid: [ep, ch, mode, len]   (uid = global submission index)
    seen,       \* set of delivered uids
    lastOnCh,   \* [sender ep -> [channel -> uid of the last delivery, 0 if none]]
    lastGlobal, \* [sender ep -> uid of the last delivery, 0 if none]
    relWait,    \* [sender ep -> [channel -> set of Reliable uids submitted and not yet delivered]]
    ideal,      \* the run declared an ideal network
    probes,     \* uids of probe packets (C11)
    emitted,    \* uids of which at least one fragment was emitted (from Emit lines, C11/C05)
    alive,      \* no call panicked or hung in this run
    bad         \* set of <<property, reason, line>>

vars == <<l, sub, seen, lastOnCh, lastGlobal, relWait, ideal, probes, emitted, alive, bad>>

Eps == {"a", "b"}
Other(e) == IF e = "a" THEN "b" ELSE "a"
Chans == 0..63
Zero == [e \in Eps |-> [c \in Chans |-> 0]]
Empty == [e \in Eps |-> [c \in Chans |-> {}]]

Init ==
    /\ l = 1 /\ sub = <<>> /\ seen = {} /\ lastOnCh = Zero /\ lastGlobal = [e \in Eps |-> 0]
    /\ relWait = Empty /\ ideal = FALSE /\ probes = {} /\ emitted = {} /\ alive = TRUE /\ bad = {}

Reset ==
    /\ IsEvent("Reset")
    /\ sub' = <<>> /\ seen' = {} /\ lastOnCh' = Zero /\ lastGlobal' = [e \in Eps |-> 0]
    /\ relWait' = Empty /\ ideal' = Cur.ideal /\ probes' = {} /\ emitted' = {} /\ alive' = TRUE
    /\ UNCHANGED bad

Send ==
    /\ IsEvent("Send")
    /\ Cur.uid = Len(sub) + 1                  \* environment assumption: uids are consecutive
    /\ Cur.ep \in Eps /\ Cur.ch \in Chans
    /\ sub' = Append(sub, [ep |-> Cur.ep, ch |-> Cur.ch, mode |-> Cur.mode, len |-> Cur.len])
    /\ relWait' = IF Cur.mode = "R"
                  THEN [relWait EXCEPT ![Cur.ep][Cur.ch] = @ \cup {Cur.uid}]
                  ELSE relWait
    /\ UNCHANGED <<seen, lastOnCh, lastGlobal, ideal, probes, emitted, alive, bad>>

Flag(p, why) == IF Cardinality(bad) < 200 THEN {<<p, why, l>>} ELSE {}

Deliver ==
    /\ IsEvent("Deliver")
    /\ LET u == Cur.uid
           known == u >= 1 /\ u <= Len(sub)
           s == sub[u]
           from == Other(Cur.ep)
           right == known /\ s.ep = from
       IN
       /\ bad' = bad
            \cup (IF ~known THEN Flag("C01", "unknown-payload") ELSE {})
            \cup (IF known /\ ~Cur.match THEN Flag("C01", "altered-payload") ELSE {})
            \cup (IF ~known \/ ~Cur.match THEN Flag("C04", "reassembled-payload-differs-from-submitted") ELSE {})
            \cup (IF known /\ Cur.match /\ Cur.len # s.len THEN Flag("C04", "reassembled-length-differs") ELSE {})
            \cup (IF known /\ s.ep # from THEN Flag("C01", "wrong-endpoint") ELSE {})
            \cup (IF known /\ u \in seen THEN Flag("C01", "delivered-twice") ELSE {})
            \cup (IF right /\ u \notin seen /\ u < lastOnCh[from][s.ch] THEN Flag("C01", "out-of-order-on-channel") ELSE {})
            \cup (IF right /\ u \notin seen /\ \E r \in relWait[from][s.ch] : r < u THEN Flag("C02", "reliable-skipped") ELSE {})
            \cup (IF right /\ ideal /\ u \notin seen /\ u < lastGlobal[from] THEN Flag("C05", "global-order") ELSE {})
       /\ seen' = IF known THEN seen \cup {u} ELSE seen
       /\ lastOnCh' = IF right /\ u > lastOnCh[from][s.ch] THEN [lastOnCh EXCEPT ![from][s.ch] = u] ELSE lastOnCh
       /\ lastGlobal' = IF right /\ u > lastGlobal[from] THEN [lastGlobal EXCEPT ![from] = u] ELSE lastGlobal
       /\ relWait' = IF right THEN [relWait EXCEPT ![from][s.ch] = @ \ {u}] ELSE relWait
    /\ UNCHANGED <<sub, ideal, probes, emitted, alive>>

(* Emit lines are optional in the filtered trace; when present they tell which uids were
   ever put on the wire (needed to judge TimeSensitive packets). *)
RECURSIVE UidsOf(_)
UidsOf(dgs) == IF dgs = <<>> THEN {} ELSE {Head(dgs).uid} \cup UidsOf(Tail(dgs))

Emit ==
    /\ IsEvent("Emit")
    /\ emitted' = IF Cur.kind = "D" THEN emitted \cup UidsOf(Cur.dgs) ELSE emitted
    /\ UNCHANGED <<sub, seen, lastOnCh, lastGlobal, relWait, ideal, probes, alive, bad>>

Probes ==
    /\ IsEvent("Probes")
    /\ probes' = {Cur.uids[i] : i \in 1..Len(Cur.uids)}
    /\ UNCHANGED <<sub, seen, lastOnCh, lastGlobal, relWait, ideal, emitted, alive, bad>>

Ret ==      \* a call panicked or hung: judged by MonRobust; the run ends here for this monitor
    /\ IsEvent("Ret")
    /\ alive' = FALSE
    /\ UNCHANGED <<sub, seen, lastOnCh, lastGlobal, relWait, ideal, probes, emitted, bad>>

UidsFrom(e) == {u \in 1..Len(sub) : sub[u].ep = e}

Quiesced ==
    /\ IsEvent("Quiesced")
    /\ LET e == Cur.ep
           mine == UidsFrom(e)
           undeliveredR == {u \in mine : sub[u].mode = "R" /\ u \notin seen}
           missingIdeal == {u \in mine : sub[u].mode # "T" /\ u \notin seen}
           tsOdd == {u \in mine : sub[u].mode = "T" /\ u \notin seen /\ u \in emitted}
           lostProbe == {u \in probes \cap mine : u \notin seen /\ (sub[u].mode # "T" \/ u \in emitted)}
       IN bad' = bad
            \* a run cut short by the harness's trace budget has not reached the horizon and is not judged for quiescence
            \* (nor is a run into which the harness forged fragments: a forged frame may use ids the genuine sender has not reached
            \* and wedge a direction for good - an on-path forger is outside the liveness clause; such runs get a short tail)
            \cup (IF alive /\ ~Cur.reached /\ ~Cur.cut /\ ("honest" \notin DOMAIN Cur \/ Cur.honest) THEN Flag("C02", "not-quiescent-within-horizon") ELSE {})
            \* (a cut run goes on unlogged until it comes to rest or reaches the horizon: `stalled` says it did not come to rest)
            \cup (IF alive /\ "stalled" \in DOMAIN Cur /\ Cur.stalled /\ ("honest" \notin DOMAIN Cur \/ Cur.honest) THEN Flag("C02", "not-quiescent-within-horizon") \cup Flag("C11", "still-busy-at-the-horizon-after-the-faults-ended") ELSE {})
            \cup (IF alive /\ Cur.reached /\ undeliveredR # {} /\ ("honest" \notin DOMAIN Cur \/ Cur.honest) THEN Flag("C02", "reliable-undelivered-at-quiescence") ELSE {})
            \* ... seen from C04: a packet of several fragments that never arrives although the connection has come to rest was
            \* not reassembled ("every packet ... arrives")
            \* (not in runs with forged copies of fragments: a forged fragment that arrives first decides the packet's header, and
            \* the genuine ones are then rightly refused)
            \cup (IF alive /\ Cur.reached /\ ("honest" \notin DOMAIN Cur \/ Cur.honest) /\ \E u \in undeliveredR : sub[u].len > 1448
                  THEN Flag("C04", "multi-fragment-reliable-packet-never-arrived") ELSE {})
            \cup (IF alive /\ Cur.reached /\ (Cur.pending \/ Cur.bufsize # 0) THEN Flag("C02", "pending-or-buffer-nonzero-at-quiescence") ELSE {})
            \cup (IF alive /\ ideal /\ Cur.reached /\ missingIdeal # {} THEN Flag("C05", "packet-missing-on-ideal-network") ELSE {})
            \* ... nor may the connection fail to come to rest within the horizon while such a packet is still missing
            \cup (IF alive /\ ideal /\ ~Cur.reached /\ ~Cur.cut /\ missingIdeal # {} THEN Flag("C05", "packet-still-undelivered-on-ideal-network-at-the-horizon") ELSE {})
            \cup (IF alive /\ ideal /\ Cur.reached /\ tsOdd # {} THEN Flag("C05", "timesensitive-sent-but-not-delivered-on-ideal-network") ELSE {})
            \cup (IF alive /\ ~Cur.cut /\ lostProbe # {} THEN Flag("C11", "probe-not-delivered") ELSE {})
    /\ UNCHANGED <<sub, seen, lastOnCh, lastGlobal, relWait, ideal, probes, emitted, alive>>

ReasmEnd ==     \* end of a reassembly run: every fragment of every (Reliable) packet was handed over
    /\ IsEvent("ReasmEnd")
    /\ bad' = bad \cup (IF alive /\ ~Cur.all_delivered THEN Flag("C04", "packet-not-delivered-although-every-fragment-arrived") ELSE {})
    /\ UNCHANGED <<sub, seen, lastOnCh, lastGlobal, relWait, ideal, probes, emitted, alive>>

Skip ==
    /\ IsOneOf({"End", "FaultsEnd", "Net", "Probe", "FlushEnd", "Handle", "Step", "RecvEnd"})
    /\ UNCHANGED <<sub, seen, lastOnCh, lastGlobal, relWait, ideal, probes, emitted, alive, bad>>

Next == Reset \/ Send \/ Deliver \/ Emit \/ Probes \/ Ret \/ Quiesced \/ ReasmEnd \/ Skip

Spec == Init /\ [][Next]_vars

(* The properties are judged when the whole trace has been consumed, so that one TLC run
   reports every violation of the batch (the driver matches each against the known findings). *)
AtEnd == l = NRec + 1
Brief == IF AtEnd THEN [l |-> l, bad |-> bad] ELSE [l |-> l]

Holds(p) == AtEnd => NoneFor(bad, p)
C01 == Holds("C01")
C02 == Holds("C02")
C05 == Holds("C05")
C11 == Holds("C11")
C04 == Holds("C04")
C02Safety == AtEnd => \A b \in bad : ~(b[1] = "C02" /\ b[2] = "reliable-skipped")
====================================================================================
