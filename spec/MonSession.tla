------------------------------- MODULE MonSession --------------------------------
(* Property monitor for the session layer, validated by TLC against traces of a real Server and
   real Clients talking through harness-owned relay sockets.

   C07  Connect only after a nonce-validated three-way handshake; both ends agree on the nonces
        (= initial sequence numbers); refusals match an error frame; incompatible
        configurations never connect
   C08  per connection: [Connect] Receive* [Disconnect|Error], nothing after the end, a new
        Connect for an address only after the previous terminal event (or Server::drop)
   C09  disconnect() delivers every earlier Reliable packet before the peer sees Disconnect;
        both ends reach a terminal event within the retry budget of the first DISCONNECT
   C10  Error(Timeout) on an established connection only after active_timeout_ms without a
        data/sync/ack frame from the peer, and not later than the first step after that;
        handshake and disconnect time-outs only after their retry budget; with keep-alive
        on a loss-free steadily stepped link an established connection never times out
   C17  the server never has more established connections than max_active_connections nor
        tracks more than max_total_connections; no ServerFull while capacity is certain
   C18  bytes sent to an address that has not completed the handshake stay below the bytes
        received from it

   A connection is identified by the pair (side, peer): side "C" = client object `peer`, side
   "S" = the server's view of address `peer`.  32-bit nonces are logged as <<high 31 bits, low bit>>. *)
EXTENDS TraceIO

Peers == {"c0", "c1", "c2", "c3", "x0", "x1", "x2", "unknown"}
Sides == {"C", "S"}
Keys == Sides \X Peers
NoNonce == <<-1, -1>>

VARIABLES
    st,          \* [Keys -> "idle" | "conn" | "done"]
    closing,     \* [Keys -> "" | "flush" | "now"]   the application asked this side to disconnect
    T,           \* [Keys -> active timeout of that endpoint, ms]
    ka,          \* [Keys -> keep-alive interval of that endpoint, ms, -1 if off]
    lastHeard,   \* [Keys -> time of the step that processed the latest data/sync/ack frame (or the Connect)]
    inbox,       \* [Keys -> sequence of frames forwarded to that endpoint from that peer since its last step]
    lastStep,    \* [ep name -> time of the latest step], maxGap [ep name -> largest step spacing]
    maxGap,
    connectT,    \* [Peers -> time Client::connect was called, -1 if not]
    cNonce,      \* [Peers -> the client's SYN nonce]
    synSeen,     \* [Peers -> set of [nonce, version, psize, alloc, rate, len] of SYN frames forwarded to the server]
    synCount,    \* [Peers -> number of SYN frames the client put on the wire]
    curSynack,   \* [Peers -> [nonce, nonce_ack] of the latest new SYN-ACK the server sent to that address]
    ackFwd,      \* [Peers -> set of nonce_ack values of ACK frames forwarded to the server from that address]
    srvIssued,   \* [Peers -> nonces the real server put into SYN-ACKs for that address]
    cliAcked,    \* [Peers -> nonce_ack values of ACK frames the real client put on the wire]
    used,        \* [Peers -> server nonces already consumed by a Connect]
    sAccepted, cAccepted,   \* [Peers -> nonce pair each side connected with]
    errFwd,      \* [Peers -> set of <<nonce_ack, err>> of ERROR frames forwarded to the client]
    saFwd,       \* [Peers -> set of <<nonce, nonce_ack>> of SYN-ACK frames forwarded to the client]
    sentOn,      \* [Keys -> the application submitted at least one packet on this connection from that side]
    relWait,     \* [Keys -> Reliable uids accepted by that side and not yet received by the other]
    mustDeliver, \* [Keys -> Reliable uids that were waiting when that side called disconnect()]
    discAt,      \* [Keys -> time of the first DISCONNECT that side put on the wire, -1]
    discCount,   \* [Keys -> DISCONNECT frames that side put on the wire]
    lng,         \* [Keys -> [at, fwd, ack]]: Disconnect reported on receiving a DISCONNECT at `at` (-1: none); DISCONNECTs forwarded to it within the linger since; DISCONNECT-ACKs it sent since
    nData,       \* [Keys -> data frames that side has put on the wire since its Connect]
    bytesIn, bytesOut, verified,   \* [Peers -> ...]  C18
    apPrev, apBefore,      \* upper bound on the server's pending + active entries at the latest / previous server StepEnd
    trackedPrev, trackedBefore, synThisStep, synLastStep,      \* server bookkeeping for C17 (values at the latest / previous server StepEnd)
    cfg,         \* the Reset record
    seenWhy,     \* reasons already reported in this run (each is reported once per run)
    bad

vars == <<l, st, closing, T, ka, lastHeard, inbox, lastStep, maxGap, connectT, cNonce, synSeen, synCount, curSynack, ackFwd, srvIssued, cliAcked, used,
          sAccepted, cAccepted, errFwd, saFwd, sentOn, relWait, mustDeliver, discAt, discCount, lng, nData, bytesIn, bytesOut, verified, apPrev, apBefore, trackedPrev, trackedBefore, synThisStep, synLastStep, cfg, seenWhy, bad>>

EpNames == Peers \cup {"s"}
K(side, p) == <<side, p>>
Max(a, b) == IF a > b THEN a ELSE b
Flag(p, why) == IF Cardinality(bad) < 400 /\ <<p, why>> \notin seenWhy THEN {<<p, why, l>>} ELSE {}
Nonce(r, f, g) == <<r[f], r[g]>>

InitVals ==
    /\ st = [k \in Keys |-> "idle"] /\ closing = [k \in Keys |-> ""] /\ T = [k \in Keys |-> 20000] /\ ka = [k \in Keys |-> -1]
    /\ lastHeard = [k \in Keys |-> 0] /\ inbox = [k \in Keys |-> <<>>]
    /\ lastStep = [e \in EpNames |-> -1] /\ maxGap = [e \in EpNames |-> 0]
    /\ connectT = [p \in Peers |-> -1] /\ cNonce = [p \in Peers |-> NoNonce] /\ synSeen = [p \in Peers |-> {}] /\ synCount = [p \in Peers |-> 0]
    /\ curSynack = [p \in Peers |-> [nonce |-> NoNonce, nonce_ack |-> NoNonce]] /\ ackFwd = [p \in Peers |-> {}] /\ srvIssued = [p \in Peers |-> {}] /\ cliAcked = [p \in Peers |-> {}] /\ used = [p \in Peers |-> {}]
    /\ sAccepted = [p \in Peers |-> NoNonce] /\ cAccepted = [p \in Peers |-> NoNonce] /\ errFwd = [p \in Peers |-> {}] /\ saFwd = [p \in Peers |-> {}]
    /\ sentOn = [k \in Keys |-> FALSE] /\ relWait = [k \in Keys |-> {}] /\ mustDeliver = [k \in Keys |-> {}] /\ discAt = [k \in Keys |-> -1] /\ discCount = [k \in Keys |-> 0] /\ lng = [k \in Keys |-> [at |-> -1, fwd |-> 0, ack |-> 0]] /\ nData = [k \in Keys |-> 0]
    /\ bytesIn = [p \in Peers |-> 0] /\ bytesOut = [p \in Peers |-> 0] /\ verified = [p \in Peers |-> FALSE]
    /\ apPrev = 0 /\ apBefore = 0 /\ trackedPrev = 0 /\ trackedBefore = 0 /\ synThisStep = {} /\ synLastStep = {}

Init == l = 1 /\ InitVals /\ bad = {} /\ seenWhy = {}
            /\ cfg = [max_active |-> 1, max_total |-> 1, lossfree |-> FALSE, steady |-> FALSE, crate |-> [p \in Peers |-> 0],
                     server |-> [timeout |-> 20000, keepalive |-> -1, max_packet_size |-> 0, max_receive_alloc |-> 0, max_send_rate |-> 0, max_receive_rate |-> 0]]

Reset ==
    /\ IsEvent("Reset")
    /\ st' = [k \in Keys |-> "idle"] /\ closing' = [k \in Keys |-> ""]
    /\ T' = [k \in Keys |-> IF k[1] = "S" THEN Cur.server.timeout ELSE 20000]
    /\ ka' = [k \in Keys |-> IF k[1] = "S" THEN Cur.server.keepalive ELSE -1]
    /\ lastHeard' = [k \in Keys |-> 0] /\ inbox' = [k \in Keys |-> <<>>]
    /\ lastStep' = [e \in EpNames |-> -1] /\ maxGap' = [e \in EpNames |-> 0]
    /\ connectT' = [p \in Peers |-> -1] /\ cNonce' = [p \in Peers |-> NoNonce] /\ synSeen' = [p \in Peers |-> {}] /\ synCount' = [p \in Peers |-> 0]
    /\ curSynack' = [p \in Peers |-> [nonce |-> NoNonce, nonce_ack |-> NoNonce]] /\ ackFwd' = [p \in Peers |-> {}] /\ srvIssued' = [p \in Peers |-> {}] /\ cliAcked' = [p \in Peers |-> {}] /\ used' = [p \in Peers |-> {}]
    /\ sAccepted' = [p \in Peers |-> NoNonce] /\ cAccepted' = [p \in Peers |-> NoNonce] /\ errFwd' = [p \in Peers |-> {}] /\ saFwd' = [p \in Peers |-> {}]
    /\ sentOn' = [k \in Keys |-> FALSE] /\ relWait' = [k \in Keys |-> {}] /\ mustDeliver' = [k \in Keys |-> {}] /\ discAt' = [k \in Keys |-> -1] /\ discCount' = [k \in Keys |-> 0] /\ lng' = [k \in Keys |-> [at |-> -1, fwd |-> 0, ack |-> 0]] /\ nData' = [k \in Keys |-> 0]
    /\ bytesIn' = [p \in Peers |-> 0] /\ bytesOut' = [p \in Peers |-> 0] /\ verified' = [p \in Peers |-> FALSE]
    /\ apPrev' = 0 /\ apBefore' = 0 /\ trackedPrev' = 0 /\ trackedBefore' = 0 /\ synThisStep' = {} /\ synLastStep' = {}
    /\ cfg' = [max_active |-> Cur.max_active, max_total |-> Cur.max_total, lossfree |-> Cur.lossfree, steady |-> Cur.steady, crate |-> [p \in Peers |-> 0], server |-> Cur.server]
    /\ UNCHANGED bad

UNCH(S) == UNCHANGED S

\* ------------------------------------------------------------------------------- application calls
AppConnect ==
    /\ IsEvent("Connect")
    \* Client::connect creates a new client object for this address (the first, or a reconnection after the previous one has
    \* ended): everything the monitor knows about the client side of that address starts afresh
    /\ LET p == Cur.ep  k == K("C", p) IN
       /\ connectT' = [connectT EXCEPT ![p] = Cur.t]
       /\ T' = [T EXCEPT ![k] = Cur.timeout]
       /\ ka' = [ka EXCEPT ![k] = Cur.keepalive]
       /\ cfg' = [cfg EXCEPT !.crate[p] = Cur.max_send_rate]
       /\ st' = [st EXCEPT ![k] = "idle"] /\ closing' = [closing EXCEPT ![k] = ""] /\ inbox' = [inbox EXCEPT ![k] = <<>>]
       /\ cNonce' = [cNonce EXCEPT ![p] = NoNonce] /\ synCount' = [synCount EXCEPT ![p] = 0] /\ cAccepted' = [cAccepted EXCEPT ![p] = NoNonce]
       /\ saFwd' = [saFwd EXCEPT ![p] = {}] /\ errFwd' = [errFwd EXCEPT ![p] = {}]
       /\ sentOn' = [sentOn EXCEPT ![k] = FALSE] /\ relWait' = [relWait EXCEPT ![k] = {}] /\ mustDeliver' = [mustDeliver EXCEPT ![k] = {}]
       /\ discAt' = [discAt EXCEPT ![k] = -1] /\ discCount' = [discCount EXCEPT ![k] = 0] /\ lng' = [lng EXCEPT ![k] = [at |-> -1, fwd |-> 0, ack |-> 0]]
       /\ nData' = [nData EXCEPT ![k] = 0]
    /\ UNCHANGED <<lastHeard, lastStep, maxGap, synSeen, curSynack, ackFwd, srvIssued, cliAcked, used, sAccepted,
                   bytesIn, bytesOut, verified, apPrev, apBefore, trackedPrev, trackedBefore, synThisStep, synLastStep, bad>>

App ==
    /\ IsEvent("App")
    /\ LET side == IF Cur.ep = "s" THEN "S" ELSE "C"
           p == IF Cur.ep = "s" THEN Cur.peer ELSE Cur.ep
           k == K(side, p)
       IN
       CASE Cur.call = "send" ->
                /\ relWait' = IF Cur.mode = "R" /\ Cur.accepted_active /\ st[k] = "conn" /\ closing[k] = ""
                              THEN [relWait EXCEPT ![k] = @ \cup {Cur.uid}] ELSE relWait
                /\ sentOn' = IF Cur.accepted_active \/ (side = "C" /\ st[k] = "idle") THEN [sentOn EXCEPT ![k] = TRUE] ELSE sentOn
                /\ UNCHANGED <<st, closing, mustDeliver>>
         [] Cur.call \in {"disconnect", "disconnect_now"} ->
                /\ closing' = IF st[k] = "conn" THEN [closing EXCEPT ![k] = IF Cur.call = "disconnect_now" THEN "now" ELSE (IF @ = "now" THEN "now" ELSE "flush")] ELSE closing
                /\ mustDeliver' = IF st[k] = "conn" /\ closing[k] = "" /\ Cur.call = "disconnect" THEN [mustDeliver EXCEPT ![k] = relWait[k]] ELSE mustDeliver
                \* a client that disconnects before the handshake completed is finished without any event
                /\ st' = IF side = "C" /\ st[k] = "idle" /\ connectT[p] >= 0 THEN [st EXCEPT ![k] = "done"] ELSE st
                /\ UNCHANGED <<relWait, sentOn>>
         [] Cur.call = "drop" ->
                /\ st' = [st EXCEPT ![k] = "idle"]
                /\ closing' = [closing EXCEPT ![k] = ""]
                /\ relWait' = [relWait EXCEPT ![k] = {}]
                /\ mustDeliver' = [mustDeliver EXCEPT ![k] = {}]
                /\ UNCHANGED sentOn
         [] OTHER -> UNCHANGED <<st, closing, relWait, mustDeliver, sentOn>>
    \* Server::drop forgets the connection at once: a dropped endpoint owes no answers
    /\ lng' = IF Cur.call = "drop" THEN [lng EXCEPT ![K(IF Cur.ep = "s" THEN "S" ELSE "C", IF Cur.ep = "s" THEN Cur.peer ELSE Cur.ep)] = [at |-> -1, fwd |-> 0, ack |-> 0]] ELSE lng
    /\ UNCHANGED <<T, ka, lastHeard, inbox, lastStep, maxGap, connectT, cNonce, synSeen, synCount, curSynack, ackFwd, srvIssued, cliAcked, used, sAccepted, cAccepted, errFwd, saFwd,
                   discAt, discCount, nData, bytesIn, bytesOut, verified, apPrev, apBefore, trackedPrev, trackedBefore, synThisStep, synLastStep, cfg, bad>>

\* ------------------------------------------------------------------------------------------ network
(* A datagram an endpoint put on the wire (seen at the relay before any fate is applied). *)
Wire ==
    /\ IsEvent("Wire")
    /\ LET fromS == Cur.from = "s"
           p == IF fromS THEN Cur.to ELSE Cur.from
           k == K(IF fromS THEN "S" ELSE "C", p)
           out == bytesOut[p] + Cur.len
       IN
       /\ bytesOut' = IF fromS THEN [bytesOut EXCEPT ![p] = out] ELSE bytesOut
       /\ bad' = bad \cup (IF fromS /\ ~verified[p] /\ out >= bytesIn[p]
                           THEN Flag("C18", "bytes-to-unverified-address-not-below-bytes-from-it") ELSE {})
                     \* "undersized connection requests are ignored": a handshake reply goes only to an address from
                     \* which a full-size (1472 byte) SYN has arrived
                     \cup (IF fromS /\ Cur.type \in {"SYNACK", "ERR"} /\ ~\E y \in synSeen[p] : y.len >= 1472
                           THEN Flag("C18", "undersized-connection-request-answered") ELSE {})
                     \cup (IF fromS /\ Cur.type = "ERR" /\ Cur.err = "ServerFull"
                              \* wire lines of a server step are logged after its StepEnd: the refusal was decided in
                              \* that step, when at most (tracked before the step + addresses whose SYN it read) were tracked
                              /\ trackedBefore + Cardinality(synLastStep \cup synThisStep) < cfg.max_total
                              /\ trackedBefore + Cardinality(synLastStep \cup synThisStep) < cfg.max_active
                           THEN Flag("C17", "refused-with-serverfull-while-capacity-available") ELSE {})
                     \* ... "capacity becomes available again when connections end" by time-out too: established connections whose
                     \* peer had been silent for the whole time-out already at the server step before the one that refused (the
                     \* largest gap between server steps so far bounds how long ago that was) do not count
                     \cup (IF fromS /\ Cur.type = "ERR" /\ Cur.err = "ServerFull"
                           THEN LET overdue == {q \in Peers : /\ st[K("S", q)] = "conn" /\ closing[K("S", q)] = "" /\ discAt[K("S", q)] < 0
                                                              /\ lastStep["s"] - maxGap["s"] >= lastHeard[K("S", q)] + T[K("S", q)]}
                                    nsyn == Cardinality(synLastStep \cup synThisStep)
                                IN IF overdue # {} /\ trackedBefore + nsyn - Cardinality(overdue) < cfg.max_total /\ apBefore + nsyn - Cardinality(overdue) < cfg.max_active
                                   THEN Flag("C17", "refused-with-serverfull-while-a-silent-connection-was-overdue-for-its-timeout") ELSE {}
                           ELSE {})
                     \* "disconnect attempts end ... after their retry budget (10 resends, 2 s apart)": one closing attempt puts at most
                     \* eleven DISCONNECT frames on the wire (a second timer chain counting down the same attempt shows here first)
                     \cup (IF Cur.type = "DISC" /\ st[k] = "conn" /\ discCount[k] >= 11
                           THEN Flag("C10", "more-disconnect-transmissions-than-the-retry-budget") ELSE {})
                     \cup (IF ~fromS /\ Cur.type = "SYN" /\ p \in {"c0", "c1", "c2", "c3"} /\ synCount[p] >= 11
                           THEN Flag("C10", "more-handshake-transmissions-than-the-retry-budget") ELSE {})
                     \* a client confirms - by an ACK carrying the server's nonce - only a SYN-ACK that reached it and echoes the
                     \* nonce of its own SYN: anything else lets a forged or stale handshake create a connection at the server
                     \cup (IF ~fromS /\ Cur.type = "ACK" /\ p \in {"c0", "c1", "c2", "c3"} /\ cNonce[p] # NoNonce
                              /\ <<Nonce(Cur, "nonce_ack", "nonce_ack_lsb"), cNonce[p]>> \notin saFwd[p]
                           THEN Flag("C07", "client-confirmed-a-synack-that-does-not-echo-its-nonce") ELSE {})
                     \* both ends established by the same handshake: frame ids count from the negotiated nonces.
                     \* seq_rel is the frame id of a data frame minus the sender's own nonce, or the frame window base of
                     \* an ack frame minus the peer's nonce (computed by the harness modulo 2^32; -1 = far away, -2 = unknown)
                     \cup (IF Cur.type \in {"DATA", "ACKF"} /\ Cur.seq_rel # -2
                              /\ st[K("S", p)] = "conn" /\ st[K("C", p)] = "conn" /\ sAccepted[p] = cAccepted[p] /\ sAccepted[p] # NoNonce
                              /\ discAt[K("S", p)] < 0 /\ discAt[K("C", p)] < 0
                              /\ (Cur.seq_rel < 0 \/ Cur.seq_rel > (IF Cur.type = "DATA" THEN nData[k] ELSE nData[K(IF fromS THEN "C" ELSE "S", p)]) + 1)
                           THEN Flag("C07", "sequence-numbers-do-not-start-at-the-negotiated-nonces") ELSE {})
       /\ nData' = IF Cur.type = "DATA" THEN [nData EXCEPT ![k] = @ + 1] ELSE nData
       /\ cNonce' = IF ~fromS /\ Cur.type = "SYN" /\ cNonce[p] = NoNonce THEN [cNonce EXCEPT ![p] = Nonce(Cur, "nonce", "nonce_lsb")] ELSE cNonce
       /\ synCount' = IF ~fromS /\ Cur.type = "SYN" THEN [synCount EXCEPT ![p] = @ + 1] ELSE synCount
       /\ curSynack' = IF fromS /\ Cur.type = "SYNACK" /\ curSynack[p].nonce # Nonce(Cur, "nonce", "nonce_lsb")
                       THEN [curSynack EXCEPT ![p] = [nonce |-> Nonce(Cur, "nonce", "nonce_lsb"), nonce_ack |-> Nonce(Cur, "nonce_ack", "nonce_ack_lsb")]]
                       ELSE curSynack
       /\ srvIssued' = IF fromS /\ Cur.type = "SYNACK" THEN [srvIssued EXCEPT ![p] = @ \cup {Nonce(Cur, "nonce", "nonce_lsb")}] ELSE srvIssued
       /\ cliAcked' = IF ~fromS /\ Cur.type = "ACK" THEN [cliAcked EXCEPT ![p] = @ \cup {Nonce(Cur, "nonce_ack", "nonce_ack_lsb")}] ELSE cliAcked
       /\ discAt' = IF Cur.type = "DISC" /\ discAt[k] < 0 /\ st[k] = "conn" THEN [discAt EXCEPT ![k] = Cur.t] ELSE discAt
       /\ discCount' = IF Cur.type = "DISC" /\ st[k] = "conn" THEN [discCount EXCEPT ![k] = @ + 1] ELSE discCount
       /\ lng' = IF Cur.type = "DISCACK" /\ lng[k].at >= 0 THEN [lng EXCEPT ![k].ack = @ + 1] ELSE lng
    /\ UNCHANGED <<st, closing, T, ka, lastHeard, inbox, lastStep, maxGap, connectT, synSeen, ackFwd, used, sAccepted, cAccepted, errFwd, saFwd,
                   sentOn, relWait, mustDeliver, bytesIn, verified, apPrev, apBefore, trackedPrev, trackedBefore, synThisStep, synLastStep, cfg>>

(* A datagram handed to an endpoint's socket (genuine after its fate, duplicated, or forged). *)
Fwd ==
    /\ IsEvent("Fwd")
    /\ LET toS == Cur.to = "s"
           p == IF toS THEN Cur.from ELSE Cur.to
           k == K(IF toS THEN "S" ELSE "C", p)
       IN
       /\ bytesIn' = IF toS THEN [bytesIn EXCEPT ![p] = @ + Cur.len] ELSE bytesIn
       /\ inbox' = [inbox EXCEPT ![k] = Append(@, Cur)]
       /\ synSeen' = IF toS /\ Cur.type = "SYN"
                     THEN [synSeen EXCEPT ![p] = @ \cup {[nonce |-> Nonce(Cur, "nonce", "nonce_lsb"), version |-> Cur.version, psize |-> Cur.max_packet_size, alloc |-> Cur.max_receive_alloc, rate |-> Cur.max_receive_rate, len |-> Cur.len]}]
                     ELSE synSeen
       /\ synThisStep' = IF toS /\ Cur.type = "SYN" THEN synThisStep \cup {p} ELSE synThisStep
       /\ ackFwd' = IF toS /\ Cur.type = "ACK" THEN [ackFwd EXCEPT ![p] = @ \cup {Nonce(Cur, "nonce_ack", "nonce_ack_lsb")}] ELSE ackFwd
       /\ saFwd' = IF ~toS /\ Cur.type = "SYNACK" THEN [saFwd EXCEPT ![p] = @ \cup {<<Nonce(Cur, "nonce", "nonce_lsb"), Nonce(Cur, "nonce_ack", "nonce_ack_lsb")>>}] ELSE saFwd
       /\ lng' = IF Cur.type = "DISC" /\ lng[k].at >= 0 /\ Cur.t <= lng[k].at + 18000 THEN [lng EXCEPT ![k].fwd = @ + 1] ELSE lng
       /\ errFwd' = IF ~toS /\ Cur.type = "ERR" THEN [errFwd EXCEPT ![p] = @ \cup {<<Nonce(Cur, "nonce_ack", "nonce_ack_lsb"), Cur.err>>}] ELSE errFwd
    /\ UNCHANGED <<st, closing, T, ka, lastHeard, lastStep, maxGap, connectT, cNonce, synCount, curSynack, srvIssued, cliAcked, used, sAccepted, cAccepted,
                   sentOn, relWait, mustDeliver, discAt, discCount, nData, bytesOut, verified, apPrev, apBefore, trackedPrev, trackedBefore, synLastStep, cfg, bad>>


(* The limits an end holds for the connection it has just reported (logged right after its Connect event, through the
   cfg(uflow_verif) accessor): "both ends agreeing on ... negotiated limits" - each must be what the peer advertised in
   the handshake frame this end accepted: the send allocation is the peer's max_receive_alloc (in whole fragments), the
   rate ceiling the smaller of the local max_send_rate and the peer's max_receive_rate. *)
FragCeil(n) == ((n + 1447) \div 1448) * 1448
Clip(n) == IF n > 2000000000 THEN 2000000000 ELSE n
Min2(a, b) == IF a < b THEN a ELSE b
Limits ==
    /\ IsEvent("Limits")
    /\ LET side == IF Cur.ep = "s" THEN "S" ELSE "C"
           p == IF Cur.ep = "s" THEN Cur.peer ELSE Cur.ep
           k == K(side, p)
           syn == {y \in synSeen[p] : y.nonce = curSynack[p].nonce_ack /\ y.len >= 1472}
           q == inbox[k]
           I == {i \in 1..Len(q) : q[i].type = "SYNACK" /\ Nonce(q[i], "nonce_ack", "nonce_ack_lsb") = cNonce[p]}
           okS == \E y \in syn : Clip(FragCeil(y.alloc)) = Cur.tx_alloc /\ Cur.rate = Min2(cfg.server.max_send_rate, y.rate)
           okC == LET i == CHOOSE x \in I : \A z \in I : x <= z IN
                  Clip(FragCeil(q[i].max_receive_alloc)) = Cur.tx_alloc /\ Cur.rate = Min2(cfg.crate[p], q[i].max_receive_rate)
       IN bad' = bad
            \cup (IF side = "S" /\ syn # {} /\ ~okS THEN Flag("C07", "negotiated-limits-differ-from-what-the-peer-advertised") ELSE {})
            \cup (IF side = "C" /\ I # {} /\ ~okC THEN Flag("C07", "negotiated-limits-differ-from-what-the-peer-advertised") ELSE {})
    /\ UNCHANGED <<st, closing, T, ka, lastHeard, inbox, lastStep, maxGap, connectT, cNonce, synSeen, synCount, curSynack, ackFwd, srvIssued, cliAcked, used, sAccepted, cAccepted, errFwd, saFwd,
                   sentOn, relWait, mustDeliver, discAt, discCount, lng, nData, bytesIn, bytesOut, verified, apPrev, apBefore, trackedPrev, trackedBefore, synThisStep, synLastStep, cfg>>

\* ------------------------------------------------------------------------------------------- events
FirstSynackFor(q, mine) ==   \* nonce of the first SYN-ACK in the inbox that echoes `mine`
    LET I == {i \in 1..Len(q) : q[i].type = "SYNACK" /\ Nonce(q[i], "nonce_ack", "nonce_ack_lsb") = mine} IN
    IF I = {} THEN NoNonce ELSE LET i == CHOOSE x \in I : \A y \in I : x <= y IN Nonce(q[i], "nonce", "nonce_lsb")

HeardFrom(q) == \E i \in 1..Len(q) : q[i].type \in {"DATA", "SYNC", "ACKF"}

Agree(sa, ca) == sa = NoNonce \/ ca = NoNonce \/ sa = ca

Event ==
    /\ IsEvent("Event")
    /\ LET side == IF Cur.ep = "s" THEN "S" ELSE "C"
           p == IF Cur.ep = "s" THEN Cur.peer ELSE Cur.ep
           k == K(side, p)
           o == K(IF side = "S" THEN "C" ELSE "S", p)
           t == Cur.t
       IN
       CASE Cur.kind = "Connect" ->
              LET n == curSynack[p].nonce
                  srvOk == n # NoNonce /\ n \in ackFwd[p] /\ n \notin used[p]
                  syn == {s \in synSeen[p] : s.nonce = curSynack[p].nonce_ack}
                  compatible == \E s \in syn : s.version = 3 /\ s.alloc >= cfg.server.max_packet_size /\ s.psize <= cfg.server.max_receive_alloc
                  mineAcc == FirstSynackFor(inbox[k], cNonce[p])
                  sa == IF side = "S" THEN n ELSE sAccepted[p]
                  ca == IF side = "C" THEN mineAcc ELSE cAccepted[p]
                  bothConn == st[o] = "conn"
              IN
              /\ bad' = bad
                   \cup (IF st[k] = "conn" THEN Flag("C08", "connect-while-connected") ELSE {})
                   \cup (IF st[k] = "done" THEN Flag("C08", "event-after-the-end") ELSE {})
                   \cup (IF side = "S" /\ ~srvOk THEN Flag("C07", "server-connect-without-echo-of-its-nonce") ELSE {})
                   \cup (IF side = "S" /\ srvOk /\ ~compatible THEN Flag("C07", "connected-despite-version-or-config-mismatch") ELSE {})
                   \cup (IF side = "C" /\ (cNonce[p] = NoNonce \/ mineAcc = NoNonce) THEN Flag("C07", "client-connect-without-synack-echoing-its-nonce") ELSE {})
                   \* both ends established with different server nonces although the client's nonce was
                   \* issued by the real server and the server's was confirmed by the real client
                   \* (an on-path forger who knows the nonces can of course connect on its own)
                   \cup (IF bothConn /\ ~Agree(sa, ca) /\ ca \in srvIssued[p] /\ sa \in cliAcked[p]
                         THEN Flag("C07", "ends-disagree-on-initial-sequence-numbers") ELSE {})
              /\ st' = [st EXCEPT ![k] = "conn"]
              /\ used' = IF side = "S" /\ n # NoNonce THEN [used EXCEPT ![p] = @ \cup {n}] ELSE used
              /\ sAccepted' = IF side = "S" THEN [sAccepted EXCEPT ![p] = n] ELSE sAccepted
              /\ cAccepted' = IF side = "C" THEN [cAccepted EXCEPT ![p] = mineAcc] ELSE cAccepted
              /\ verified' = IF side = "S" THEN [verified EXCEPT ![p] = TRUE] ELSE verified
              /\ lastHeard' = [lastHeard EXCEPT ![k] = t]
              /\ closing' = [closing EXCEPT ![k] = ""]
              /\ relWait' = [relWait EXCEPT ![k] = {}]
              /\ sentOn' = IF side = "S" THEN [sentOn EXCEPT ![k] = FALSE] ELSE sentOn   \* a client may have queued packets before Connect
              /\ mustDeliver' = [mustDeliver EXCEPT ![k] = {}]
              /\ discAt' = [discAt EXCEPT ![k] = -1]
              /\ discCount' = [discCount EXCEPT ![k] = 0]
              /\ lng' = [lng EXCEPT ![k] = [at |-> -1, fwd |-> 0, ack |-> 0]]
              /\ nData' = [nData EXCEPT ![k] = 0]
         [] Cur.kind = "Receive" ->
              /\ bad' = bad
                   \cup (IF st[k] = "idle" THEN Flag("C08", "receive-without-connect") ELSE {})
                   \cup (IF st[k] = "done" THEN Flag("C08", "event-after-the-end") ELSE {})
                   \cup (IF st[k] \in {"idle", "done"} THEN Flag("C09", "delivery-after-the-terminal-event") ELSE {})
                   \cup (IF Cur.uid < 0 \/ ~Cur.match THEN Flag("C08", "received-payload-never-sent") ELSE {})
              /\ relWait' = [relWait EXCEPT ![o] = @ \ {Cur.uid}]
              /\ UNCHANGED sentOn
              /\ UNCHANGED <<st, used, sAccepted, cAccepted, verified, lastHeard, closing, mustDeliver, discAt, discCount, lng, nData>>
         [] Cur.kind = "Disconnect" ->
              /\ bad' = bad
                   \cup (IF st[k] = "idle" THEN Flag("C08", "disconnect-without-connect") ELSE {})
                   \cup (IF st[k] = "done" THEN Flag("C08", "event-after-the-end") ELSE {})
                   \* the other side asked for a flushing disconnect, really put its DISCONNECT on the wire (a forged
                   \* DISCONNECT from its address ends the connection too, but that is not the library's doing) and
                   \* this side did not disconnect itself
                   \cup (IF st[k] = "conn" /\ closing[o] = "flush" /\ discAt[o] >= 0 /\ closing[k] = "" /\ mustDeliver[o] \cap relWait[o] # {}
                         THEN Flag("C09", "peer-saw-disconnect-before-earlier-reliable-packets") ELSE {})
              /\ st' = [st EXCEPT ![k] = IF side = "C" THEN "done" ELSE "idle"]
              \* reported on receiving the peer's DISCONNECT (not its DISCONNECT-ACK): this side now lingers in Closed for 20 s and
              \* answers every retransmission of that DISCONNECT
              /\ lng' = IF (\E i \in 1..Len(inbox[k]) : inbox[k][i].type = "DISC") /\ ~(\E i \in 1..Len(inbox[k]) : inbox[k][i].type = "DISCACK")
                        THEN [lng EXCEPT ![k] = [at |-> t, fwd |-> 0, ack |-> 0]] ELSE lng
              /\ UNCHANGED <<used, sAccepted, cAccepted, verified, lastHeard, closing, relWait, sentOn, mustDeliver, discAt, discCount, nData>>
         [] Cur.kind = "Error" ->
              LET established == st[k] = "conn"
                  isTimeout == Cur.err = "Timeout"
              IN
              /\ bad' = bad
                   \cup (IF st[k] = "done" THEN Flag("C08", "event-after-the-end") ELSE {})
                   \* established, not closing: only after the configured silence
                   \cup (IF established /\ isTimeout /\ closing[k] = "" /\ discAt[k] < 0 /\ t < lastHeard[k] + T[k]
                         THEN Flag("C10", "timeout-before-the-configured-silence") ELSE {})
                   \* ... nor while a data / sync / ack frame from the peer, handed to the socket before this step, is
                   \* waiting to be read (a step reads what has arrived before it looks at the clock)
                   \cup (IF established /\ isTimeout /\ closing[k] = "" /\ discAt[k] < 0 /\ HeardFrom(inbox[k])
                         THEN Flag("C10", "timeout-although-a-frame-from-the-peer-had-arrived") ELSE {})
                   \cup (IF established /\ isTimeout /\ closing[k] = "" /\ discAt[k] < 0 /\ cfg.lossfree /\ cfg.steady
                            /\ ka[k] >= 0 /\ ka[o] >= 0 /\ st[o] = "conn" /\ closing[o] = ""
                            /\ ~sentOn[k] /\ ~sentOn[o]      \* "however long it stays idle": nothing was ever submitted
                         THEN Flag("C10", "timeout-despite-keepalive-on-lossfree-link") ELSE {})
                   \* closing: only after the disconnect retry budget
                   \cup (IF established /\ isTimeout /\ discAt[k] >= 0 /\ (t < discAt[k] + 22000 \/ discCount[k] < 11)
                         THEN Flag("C10", "disconnect-timeout-before-retry-budget") ELSE {})
                   \* "Error(Timeout) if the peer has become unreachable": the peer reported Disconnect on receiving this side's
                   \* DISCONNECT and then lingers for 20 s answering retransmissions; if three or more of them reached it within
                   \* that time and it answered at most once, it was reachable and silent
                   \cup (IF established /\ isTimeout /\ discAt[k] >= 0 /\ lng[o].at >= 0 /\ lng[o].fwd >= 3 /\ lng[o].ack <= 1
                         THEN Flag("C09", "closed-endpoint-stopped-acknowledging-disconnect-retransmissions") ELSE {})
                   \* client handshake: only after the retry budget
                   \cup (IF side = "C" /\ st[k] = "idle" /\ isTimeout /\ (t < connectT[p] + 22000 \/ synCount[p] < 11)
                         THEN Flag("C10", "handshake-timeout-before-retry-budget") ELSE {})
                   \cup (IF side = "C" /\ st[k] = "idle" /\ ~isTimeout /\ <<cNonce[p], Cur.err>> \notin errFwd[p]
                         THEN Flag("C07", "handshake-error-without-matching-refusal-frame") ELSE {})
                   \cup (IF established /\ ~isTimeout THEN Flag("C08", "handshake-error-on-established-connection") ELSE {})
                   \* server side, no connection reported (or the last one has ended): a time-out can only be that of a pending handshake,
                   \* for which the server has sent a SYN-ACK since the last terminal event of that address
                   \cup (IF side = "S" /\ st[k] = "idle" /\ isTimeout /\ curSynack[p].nonce = NoNonce
                         THEN Flag("C08", "timeout-reported-for-an-address-without-connection-or-pending-handshake") ELSE {})
              /\ st' = [st EXCEPT ![k] = IF side = "C" THEN "done" ELSE "idle"]
              /\ UNCHANGED <<used, sAccepted, cAccepted, verified, lastHeard, closing, relWait, sentOn, mustDeliver, discAt, discCount, lng, nData>>
         [] OTHER -> UNCHANGED <<bad, st, used, sAccepted, cAccepted, verified, lastHeard, closing, relWait, sentOn, mustDeliver, discAt, discCount, lng, nData>>
    /\ curSynack' = IF Cur.ep = "s" /\ Cur.kind \in {"Disconnect", "Error"} /\ Cur.peer \in Peers
                    THEN [curSynack EXCEPT ![Cur.peer] = [nonce |-> NoNonce, nonce_ack |-> NoNonce]] ELSE curSynack
    /\ UNCHANGED <<T, ka, inbox, lastStep, maxGap, connectT, cNonce, synSeen, synCount, ackFwd, srvIssued, cliAcked, errFwd, saFwd, bytesIn, bytesOut, apPrev, apBefore, trackedPrev, trackedBefore, synThisStep, synLastStep, cfg>>

\* --------------------------------------------------------------------------------------- end of step

StepEnd ==
    /\ IsEvent("StepEnd")
    /\ LET e == Cur.ep
           t == Cur.t
           side == IF e = "s" THEN "S" ELSE "C"
           mine == IF e = "s" THEN {K("S", p) : p \in Peers} ELSE {K("C", e)}
           gap == IF lastStep[e] < 0 THEN 0 ELSE t - lastStep[e]
           g == Max(maxGap[e], gap)
           heard == [k \in Keys |-> IF k \in mine /\ st[k] = "conn" /\ HeardFrom(inbox[k]) THEN t ELSE lastHeard[k]]
       IN
       /\ lastHeard' = heard
       /\ inbox' = [k \in Keys |-> IF k \in mine THEN <<>> ELSE inbox[k]]
       /\ lastStep' = [lastStep EXCEPT ![e] = t]
       /\ maxGap' = [maxGap EXCEPT ![e] = g]
       /\ apPrev' = IF e = "s"
                    THEN Cardinality({i \in 1..Len(Cur.tracked) :
                            LET q == Cur.tracked[i].peer  kq == K("S", q) IN
                            \/ Cur.tracked[i].active
                            \/ ~( \/ (q \in Peers /\ st[kq] = "conn" /\ discAt[kq] >= 0)             \* closing: the server has sent its DISCONNECT
                                  \/ (q \in Peers /\ lng[kq].at >= 0 /\ t < lng[kq].at + 20000) )})     \* lingering in Closed
                    ELSE apPrev
       /\ apBefore' = IF e = "s" THEN apPrev ELSE apBefore
       /\ trackedPrev' = IF e = "s" THEN Cur.ntracked ELSE trackedPrev
       /\ trackedBefore' = IF e = "s" THEN trackedPrev ELSE trackedBefore
       /\ synLastStep' = IF e = "s" THEN synThisStep ELSE synLastStep
       /\ synThisStep' = IF e = "s" THEN {} ELSE synThisStep
       /\ bad' = bad
            \cup (IF \E k \in mine : st[k] = "conn" /\ closing[k] = "" /\ discAt[k] < 0 /\ t >= heard[k] + T[k]
                  THEN Flag("C10", "no-timeout-at-the-first-step-after-the-configured-silence") ELSE {})
            \cup (IF \E k \in mine : st[k] = "conn" /\ discAt[k] >= 0 /\ t > discAt[k] + 22000 + 12 * g + 100
                  THEN Flag("C09", "no-terminal-event-within-the-disconnect-budget") ELSE {})
            \cup (IF e = "s" /\ Cur.nactive > cfg.max_active THEN Flag("C17", "more-active-connections-than-max-active") ELSE {})
            \cup (IF e = "s" /\ Cardinality({p \in Peers : st[K("S", p)] = "conn" /\ discAt[K("S", p)] < 0}) > cfg.max_active THEN Flag("C17", "more-established-connections-than-max-active") ELSE {})
            \cup (IF e = "s" /\ Cur.ntracked > cfg.max_total THEN Flag("C17", "more-tracked-connections-than-max-total") ELSE {})
            \* "capacity becomes available again when connections end" - and only then: a connection the server has reported and
            \* not yet ended must still be among the ones it tracks (and counts against its limits)
            \cup (IF e = "s" /\ \E p \in Peers : st[K("S", p)] = "conn" /\ ~\E i \in 1..Len(Cur.tracked) : Cur.tracked[i].peer = p
                  THEN Flag("C17", "established-connection-no-longer-counted-against-the-limits") ELSE {})
    /\ UNCHANGED <<st, closing, T, ka, connectT, cNonce, synSeen, synCount, curSynack, ackFwd, srvIssued, cliAcked, used, sAccepted, cAccepted, errFwd, saFwd,
                   sentOn, relWait, mustDeliver, discAt, discCount, lng, nData, bytesIn, bytesOut, verified, cfg>>

Skip ==
    /\ IsOneOf({"End", "FaultsEnd", "Net", "Ret", "Step"})
    /\ UNCHANGED <<st, closing, T, ka, lastHeard, inbox, lastStep, maxGap, connectT, cNonce, synSeen, synCount, curSynack, ackFwd, srvIssued, cliAcked, used, sAccepted, cAccepted, errFwd, saFwd,
                   sentOn, relWait, mustDeliver, discAt, discCount, lng, nData, bytesIn, bytesOut, verified, apPrev, apBefore, trackedPrev, trackedBefore, synThisStep, synLastStep, cfg, bad>>

Next == /\ (Reset \/ AppConnect \/ App \/ Wire \/ Fwd \/ Event \/ Limits \/ StepEnd \/ Skip)
        /\ seenWhy' = IF Rec[l].ev = "Reset" THEN {} ELSE seenWhy \cup {<<b[1], b[2]>> : b \in bad' \ bad}
Spec == Init /\ [][Next]_vars

AtEnd == l = NRec + 1
Brief == IF AtEnd THEN [l |-> l, bad |-> bad] ELSE [l |-> l]
Holds(p) == AtEnd => NoneFor(bad, p)
C07 == Holds("C07")
C08 == Holds("C08")
C09 == Holds("C09")
C10 == Holds("C10")
C17 == Holds("C17")
C18 == Holds("C18")
====================================================================================
