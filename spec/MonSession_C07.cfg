SPECIFICATION Spec
INVARIANT C07
POSTCONDITION Accepted
CHECK_DEADLOCK FALSE
ALIAS Brief
