------------------------------- MODULE CrcLowWeight ------------------------------
(* Every frame of at most 1472 bytes altered in one to four bit positions is rejected.

   Frame::read accepts iff crc(data) equals the 32-bit big-endian field that follows the data.
   crc is affine (CrcSyn), so flipping a set E of bits of a valid frame is undetected iff the XOR
   of the syndromes of the bits in E is zero, where the syndrome of a data bit is CodeSyn(b, d)
   (it depends only on the distance d from the end of the data, so the longest frame covers all
   shorter ones) and the syndrome of bit k of the CRC field is the unit vector 2^k.
   With S the list of these N syndromes, no 1..4 of them XOR to zero iff the values
        0,   S[i],   S[i] xor S[j]  (i < j)
   are pairwise different: a repeated value among them is exactly a vanishing combination of at
   most four syndromes.  TLC enumerates these values as states under a VIEW that keeps only the
   value; the driver requires  distinct states = generated states = 1 + N + N(N-1)/2.
   N is limited by the constant NBits (the N syndromes nearest the end of the frame, CRC field
   first) so that a quick run covers a prefix and a thorough run all 11776. *)
EXTENDS Naturals, Sequences, Bitwise, TLC, Json, IOUtils

CONSTANT NBits
J == JsonDeserialize(IOEnv.CRCJSON)

(* position k = 1..32: CRC field bit k-1; position 32 + 8 d + b + 1: bit b of the data byte d from the end *)
Syn(k) == IF k <= 32
          THEN (IF k <= 16 THEN <<0, 2 ^ (k - 1)>> ELSE <<2 ^ (k - 17), 0>>)
          ELSE LET q == k - 33 IN <<J.syn[(q % 8) + 1][(q \div 8) + 1][1], J.syn[(q % 8) + 1][(q \div 8) + 1][2]>>
S == [k \in 1..NBits |-> Syn(k)]

VARIABLES hi, lo, row
Init == \/ hi = 0 /\ lo = 0 /\ row = 0
        \/ \E i \in 1..NBits : hi = S[i][1] /\ lo = S[i][2] /\ row = i
Next == /\ row \in 1..NBits
        /\ \E j \in (row + 1)..NBits : hi' = S[row][1] ^^ S[j][1] /\ lo' = S[row][2] ^^ S[j][2] /\ row' = 0
View == <<hi, lo>>
====================================================================================
