SPECIFICATION Spec
INVARIANT C18
POSTCONDITION Accepted
CHECK_DEADLOCK FALSE
ALIAS Brief
