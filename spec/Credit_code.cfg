SPECIFICATION Spec
CONSTANTS
    Cap = 6
    FrameMax = 3
    Accrued = {0, 2, 6, 20}
    RefillFirst = FALSE
INVARIANT InstantBound
CHECK_DEADLOCK FALSE
