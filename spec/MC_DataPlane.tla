------------------------------- MODULE MC_DataPlane ------------------------------
EXTENDS DataPlane
StateConstraint == nframes <= MaxFrames /\ nsyncs <= MaxSyncs
====================================================================================
