SPECIFICATION Spec
INVARIANT C14
INVARIANT Report
POSTCONDITION Accepted
CHECK_DEADLOCK FALSE
ALIAS Brief
