--------------------------------- MODULE TfrcTrace --------------------------------
(* Lock-step conformance of the real SendRateComp with Tfrc.tla.  Each Op line is one call
   (frame sent / step with feedback / step without); the State line that follows is the code's
   state after it.  The model performs the same call with the oracle values logged next to it
   and must land in the same state: mode, rate, RTT in ms, no-feedback deadline, idle flag,
   equation rate and the size of the receive-rate set.  Runs whose values exceed the model's
   saturation value are skipped (TLC integers are 32 bit). *)
EXTENDS TraceIO, Tfrc

VARIABLES s, op, live, nsteps, mism
vars == <<l, s, op, live, nsteps, mism>>
Flag(why) == IF Cardinality(mism) < 100 THEN {<<"CONF", why, l>>} ELSE {}

Init == l = 1 /\ s = New(MSS) /\ op = [kind |-> "none"] /\ live = FALSE /\ nsteps = 0 /\ mism = {}

Reset == /\ IsEvent("Reset") /\ s' = New(Cur.ceiling) /\ op' = [kind |-> "none"] /\ live' = (Cur.ceiling <= 1000000000) /\ UNCHANGED <<nsteps, mism>>

Op == /\ IsEvent("Op") /\ op' = Cur /\ UNCHANGED <<s, live, nsteps, mism>>

\* values the 32-bit model cannot tell apart from saturated ones end the comparison for the rest of the run
Fits(o) == o.kind # "fb" \/ s.mode = 0 \/ (o.recv <= 1000000000 /\ o.ora_init <= 1000000000 /\ o.ora_lossinit <= 1000000000 /\ (s.mode = 2 => o.ora_xbps <= 1999999999))

State ==
    /\ IsEvent("State")
    /\ LET c == Cur
           o == [rtt_ms |-> c.rtt_ms, rto_ms |-> c.rto_ms,
                 init |-> IF op.kind = "sent" THEN -1 ELSE op.ora_init,
                 lossinit |-> IF op.kind = "fb" THEN op.ora_lossinit ELSE -1,
                 xbps |-> IF op.kind = "fb" THEN op.ora_xbps ELSE -1,
                 recv85 |-> IF op.kind = "fb" THEN op.ora_recv85 ELSE -1]
           want == CASE op.kind = "sent" -> NotifySent(s, op.now)
                     [] op.kind = "fb" -> Step(s, op.now, TRUE, op.recv, op.loss_increase, op.rl, o)
                     [] OTHER -> Step(s, op.now, FALSE, 0, FALSE, FALSE, o)
           same == /\ want.mode = c.mode /\ want.x = c.x /\ want.nofb = c.nofb_at /\ want.idle = c.idle
                   /\ (want.mode # 2 \/ want.tcp = c.tcp) /\ Len(want.xrecv) = c.nrecv /\ want.rtt = c.rtt_ms
           ok == live /\ Fits(op)
       IN /\ s' = IF ok THEN want ELSE s
          /\ live' = ok
          /\ mism' = mism \cup (IF ok /\ ~same THEN Flag("rate-controller-state-differs-from-model") ELSE {})
          /\ nsteps' = nsteps + (IF ok THEN 1 ELSE 0)
    /\ UNCHANGED op

Skip == /\ IsOneOf({"End", "Ret"}) /\ UNCHANGED <<s, op, live, nsteps, mism>>
Next == Reset \/ Op \/ State \/ Skip
Spec == Init /\ [][Next]_vars
AtEnd == l = NRec + 1
Brief == IF AtEnd THEN [l |-> l, bad |-> mism, nsteps |-> nsteps] ELSE [l |-> l]
CONF == AtEnd => NoneFor(mism, "CONF")
Report == AtEnd => PrintT(<<"TFRCCONF-REPORT", nsteps, Cardinality(mism)>>)
====================================================================================
