--------------------------------- MODULE MonTfrc ---------------------------------
(* Property monitor for C14, validated by TLC against traces of the real SendRateComp driven
   directly with seeded feedback histories.  Floating-point evaluations of the RFC 5348
   formulas (throughput equation, 4380/R) are oracle inputs computed independently by the
   harness and logged next to each call; everything else -- which rule applies when, what may
   change, by how much -- is decided here.

   C14  * once loss has been reported the allowed rate never exceeds the throughput equation
          (or the s/64 floor where the equation falls below it)
        * in slow start one feedback at most doubles the rate or sets the initial window per RTT
        * the rate changes only on feedback or on a no-feedback expiry; an expiry never raises
          it and at most halves it
        * it is never below min(s/64, ceiling) nor above the ceiling
        * the RTT estimate is the 0.9/0.1 moving average of the samples *)
EXTENDS TraceIO

VARIABLES ceiling, ps, op, nfb, nexp, bad
vars == <<l, ceiling, ps, op, nfb, nexp, bad>>

NoState == [mode |-> 0, x |-> 1472, rtt_us |-> -1, nofb_at |-> -1]
Max(a, b) == IF a > b THEN a ELSE b
Min(a, b) == IF a < b THEN a ELSE b
Abs(a) == IF a < 0 THEN -a ELSE a
Floor == Min(23, ceiling)
Flag(p, why) == IF Cardinality(bad) < 200 THEN {<<p, why, l>>} ELSE {}

Init == l = 1 /\ ceiling = 0 /\ ps = NoState /\ op = [kind |-> "none"] /\ nfb = 0 /\ nexp = 0 /\ bad = {}

Reset == /\ IsEvent("Reset") /\ ceiling' = Cur.ceiling /\ ps' = NoState /\ op' = [kind |-> "none"] /\ UNCHANGED <<nfb, nexp, bad>>

Op == /\ IsEvent("Op") /\ op' = Cur /\ UNCHANGED <<ceiling, ps, nfb, nexp, bad>>

State ==
    /\ IsEvent("State")
    /\ LET ns == Cur
           fb == op.kind = "fb" /\ ps.mode # 0         \* feedback is ignored before the first frame was sent
           expired == op.kind = "tick" /\ ps.mode # 0 /\ ps.nofb_at >= 0 /\ op.now >= ps.nofb_at
           quiet == ~fb /\ ~expired
           half == ps.x \div 2
       IN
       /\ bad' = bad
            \cup (IF ns.mode # 0 /\ ns.x > ceiling THEN Flag("C14", "rate-above-configured-ceiling") ELSE {})
            \cup (IF ns.mode # 0 /\ ns.x < Floor THEN Flag("C14", "rate-below-floor") ELSE {})
            \cup (IF quiet /\ ns.x # ps.x THEN Flag("C14", "rate-changed-without-feedback-or-expiry") ELSE {})
            \cup (IF expired /\ ns.x > ps.x THEN Flag("C14", "rate-increased-by-nofeedback-expiry") ELSE {})
            \cup (IF expired /\ ns.x < Min(ps.x, Max(half - 2, Floor)) THEN Flag("C14", "nofeedback-expiry-more-than-halved-rate") ELSE {})
            \cup (IF fb /\ ps.mode = 1 /\ ns.mode = 1 /\ ps.x <= 1000000000 /\ ns.x > Max(2 * ps.x, op.ora_init) + 1
                  THEN Flag("C14", "slow-start-feedback-more-than-doubled-rate") ELSE {})
            \cup (IF fb /\ ps.mode = 2 /\ ns.mode = 2 /\ ns.x > Max(op.ora_xbps, Floor) + 1
                  THEN Flag("C14", "rate-above-throughput-equation") ELSE {})
            \cup (IF fb /\ ps.mode = 1 /\ ns.mode = 2 /\ op.ora_reset_xbps >= 0 /\ ns.x > Floor
                     /\ ns.x \div 106 > op.ora_reset_xbps \div 100 + 1
                  THEN Flag("C14", "rate-above-throughput-equation-at-first-loss") ELSE {})
            \cup (IF fb /\ ps.rtt_us < 0 /\ Abs(ns.rtt_us - op.sample_ms * 1000) > 1
                  THEN Flag("C14", "first-rtt-estimate-is-not-the-sample") ELSE {})
            \cup (IF fb /\ ps.rtt_us >= 0 /\ ps.rtt_us < 100000000 /\ Abs(10 * ns.rtt_us - (9 * ps.rtt_us + op.sample_ms * 1000)) > 20
                  THEN Flag("C14", "rtt-estimate-is-not-the-0.9/0.1-average") ELSE {})
            \cup (IF ~fb /\ ns.rtt_us # ps.rtt_us THEN Flag("C14", "rtt-estimate-changed-without-feedback") ELSE {})
       /\ ps' = [mode |-> ns.mode, x |-> ns.x, rtt_us |-> ns.rtt_us, nofb_at |-> ns.nofb_at]
       /\ nfb' = nfb + (IF fb THEN 1 ELSE 0)
       /\ nexp' = nexp + (IF expired THEN 1 ELSE 0)
    /\ UNCHANGED <<ceiling, op>>

Skip == /\ IsOneOf({"End", "Ret"}) /\ UNCHANGED <<ceiling, ps, op, nfb, nexp, bad>>

Next == Reset \/ Op \/ State \/ Skip
Spec == Init /\ [][Next]_vars

AtEnd == l = NRec + 1
Brief == IF AtEnd THEN [l |-> l, bad |-> bad, nfb |-> nfb, nexp |-> nexp] ELSE [l |-> l]
C14 == AtEnd => NoneFor(bad, "C14")
Report == AtEnd => PrintT(<<"TFRC-REPORT", nfb, nexp>>)
====================================================================================
