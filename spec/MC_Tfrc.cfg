SPECIFICATION Spec
CONSTANTS
    MSS = 1472
    Floor = 23
    Cap = 2000000000
    MaxN = 4
    Ceilings = {1472, 20000, 2000000000}
    Dts = {0, 50, 3000}
    Samples = {0, 100}
    Recvs = {0, 1000, 100000, 2000000000}
    Xbs = {10, 5000, 500000}
INVARIANT RateBounds
INVARIANT NoRiseWithoutFb
INVARIANT AtMostHalved
INVARIANT SlowStartDoubling
INVARIANT EquationBound
INVARIANT TimerArmed
INVARIANT ModeMonotone
CHECK_DEADLOCK FALSE
