------------------------------- MODULE MonTransmit -------------------------------
(* Property monitor for what a sender puts on the wire, validated by TLC against traces of
   the real HalfConnection.

   C12  Unreliable / TimeSensitive fragments are transmitted at most once; a TimeSensitive
        packet not begun by the step() after its send() is never transmitted (whether or not it
        had been taken from the send queue and numbered before that step: two reasons, the second
        is finding F17, repaired); Persistent / Reliable fragments are not transmitted again once
        a valid acknowledgement for a frame carrying them has been processed, nor once the
        receiver reported moving past the packet; and the sender does not give up on one (offer a
        packet-window resynchronisation beyond it) while a fragment of it is unacknowledged, nor
        come to rest (report nothing pending at quiescence) while a fragment of a Persistent /
        Reliable packet has neither been acknowledged nor been passed by the receiver ("each
        fragment ... is retransmitted until acknowledged"), in runs without forged frames.
   C04  no emitted frame exceeds 1472 bytes.

   "Valid acknowledgement" is decided here, from the trace alone: an ack group is valid iff
   every frame id it spans lies in the sender's frame log as logged immediately before the
   call ([pre_f_log_base, pre_f_next)) and the XOR of the nonces of the frames it claims
   (known from the Emit lines) equals the group's nonce. *)
EXTENDS TraceIO

VARIABLES
    sub,        \* sequence over uid: [ep, mode, sn]
    emitted,    \* set of <<uid, frag>> put on the wire at least once
    begun,      \* set of uids with at least one fragment on the wire
    acked,      \* set of <<uid, frag>> covered by a processed valid acknowledgement
    passed,     \* set of uids the receiver reported moving past (valid packet window base)
    open,       \* [ep -> set of <<pid, uid>> on the wire and not yet passed]
    frames,     \* [ep -> [fid -> [nonce, frags]]] for frame ids still in the sender's log
    tsFresh,    \* [ep -> TimeSensitive uids sent since the last step() and not yet begun]
    nfrag,      \* sequence over uid: number of fragments
    stale,      \* set of <<uid, txNext>>: TimeSensitive uids not begun at the step after their send
    lastTxNext, \* [ep -> tx_next logged at the latest FlushEnd]
    obs,        \* counter: TimeSensitive packets first sent after the step although pulled before it
    honest,     \* no forged frames in this run (Reset line)
    bad

vars == <<l, sub, emitted, begun, acked, passed, open, frames, tsFresh, nfrag, stale, lastTxNext, obs, honest, bad>>

Eps == {"a", "b"}
None == [e \in Eps |-> {}]
NoFrames == [e \in Eps |-> <<>>]

Init ==
    /\ l = 1 /\ sub = <<>> /\ emitted = {} /\ begun = {} /\ acked = {} /\ passed = {} /\ open = None
    /\ frames = NoFrames /\ tsFresh = None /\ nfrag = <<>> /\ stale = {} /\ lastTxNext = [e \in Eps |-> 0] /\ obs = 0 /\ honest = FALSE /\ bad = {}

Flag(p, why) == IF Cardinality(bad) < 200 THEN {<<p, why, l>>} ELSE {}

Reset ==
    /\ IsEvent("Reset")
    /\ sub' = <<>> /\ emitted' = {} /\ begun' = {} /\ acked' = {} /\ passed' = {} /\ open' = None
    /\ frames' = NoFrames /\ tsFresh' = None /\ nfrag' = <<>> /\ stale' = {} /\ lastTxNext' = [e \in Eps |-> 0]
    /\ honest' = (IF "honest" \in DOMAIN Cur THEN Cur.honest ELSE FALSE)
    /\ UNCHANGED <<obs, bad>>

Send ==
    /\ IsEvent("Send")
    /\ Cur.uid = Len(sub) + 1
    /\ sub' = Append(sub, [ep |-> Cur.ep, mode |-> Cur.mode, sn |-> Cur.sn])
    /\ nfrag' = Append(nfrag, Cur.nfrag)
    /\ tsFresh' = IF Cur.mode = "T" THEN [tsFresh EXCEPT ![Cur.ep] = @ \cup {Cur.uid}] ELSE tsFresh
    /\ UNCHANGED <<emitted, begun, acked, passed, open, frames, stale, lastTxNext, obs, honest, bad>>

(* step(): every TimeSensitive packet of this endpoint that has not begun is stale from now on;
   remember how far packet ids had been handed out (to tell "pulled before the step" apart). *)
Step ==
    /\ IsEvent("Step")
    /\ LET e == Cur.ep IN
       /\ stale' = stale \cup {<<u, lastTxNext[e]>> : u \in tsFresh[e]}
       /\ tsFresh' = [tsFresh EXCEPT ![e] = {}]
    /\ UNCHANGED <<sub, emitted, begun, acked, passed, open, frames, nfrag, lastTxNext, obs, honest, bad>>

FlushEnd ==
    /\ IsEvent("FlushEnd")
    /\ lastTxNext' = [lastTxNext EXCEPT ![Cur.ep] = Cur.tx_next]
    /\ UNCHANGED <<sub, emitted, begun, acked, passed, open, frames, tsFresh, nfrag, stale, obs, honest, bad>>

StaleLimit(u) == CHOOSE p \in stale : p[1] = u
IsStale(u) == \E p \in stale : p[1] = u

DgFlags(g) ==
    LET u == g.uid
        pr == <<g.uid, g.frag>>
    IN  IF u < 1 \/ u > Len(sub) THEN Flag("C12", "unidentified-datagram-emitted")
        ELSE LET m == sub[u].mode IN
             (IF m \in {"U", "T"} /\ pr \in emitted THEN Flag("C12", "unreliable-fragment-sent-twice") ELSE {})
        \cup (IF m = "T" /\ u \notin begun /\ IsStale(u) /\ g.pid >= StaleLimit(u)[2]
                 THEN Flag("C12", "timesensitive-begun-after-step") ELSE {})
        \* the same, for a packet that had already been given a packet id (taken from the send queue into the pending
        \* queue) before the step although none of it had been sent: reported under its own reason (F17)
        \cup (IF m = "T" /\ u \notin begun /\ IsStale(u) /\ g.pid < StaleLimit(u)[2]
                 THEN Flag("C12", "timesensitive-begun-after-step-though-numbered-before-it") ELSE {})
        \cup (IF m \in {"P", "R"} /\ pr \in acked THEN Flag("C12", "resent-after-ack-processed") ELSE {})
        \cup (IF m \in {"P", "R"} /\ u \in passed THEN Flag("C12", "resent-after-receiver-moved-past") ELSE {})

LatePull(g) == /\ g.uid >= 1 /\ g.uid <= Len(sub) /\ sub[g.uid].mode = "T" /\ g.uid \notin begun
               /\ IsStale(g.uid) /\ g.pid < StaleLimit(g.uid)[2]

Emit ==
    /\ IsEvent("Emit")
    /\ IF Cur.kind = "D"
       THEN LET e == Cur.ep
                dgs == Cur.dgs
                I == 1..Len(dgs)
                known == {i \in I : dgs[i].uid >= 1 /\ dgs[i].uid <= Len(sub)}
                pairs == {<<dgs[i].uid, dgs[i].frag>> : i \in known}
                dupInFrame == \E i, j \in known : i < j /\ dgs[i].uid = dgs[j].uid /\ dgs[i].frag = dgs[j].frag
                                                  /\ sub[dgs[i].uid].mode \in {"U", "T"}
            IN
            /\ bad' = bad \cup UNION {DgFlags(dgs[i]) : i \in I}
                          \cup (IF dupInFrame THEN Flag("C12", "unreliable-fragment-sent-twice") ELSE {})
                          \cup (IF Cur.len > 1472 THEN Flag("C04", "frame-larger-than-1472") ELSE {})
            /\ obs' = obs + Cardinality({dgs[i].uid : i \in {k \in I : LatePull(dgs[k])}})
            /\ emitted' = emitted \cup pairs
            /\ begun' = begun \cup {p[1] : p \in pairs}
            /\ tsFresh' = [tsFresh EXCEPT ![e] = @ \ {p[1] : p \in pairs}]
            /\ open' = [open EXCEPT ![e] = @ \cup {<<dgs[i].pid, dgs[i].uid>> : i \in {k \in known : dgs[k].uid \notin passed}}]
            /\ frames' = [frames EXCEPT ![e] = (Cur.fid :> [nonce |-> Cur.nonce, frags |-> pairs]) @@ @]
       ELSE /\ bad' = bad \cup (IF Cur.len > 1472 THEN Flag("C04", "frame-larger-than-1472") ELSE {})
                 \* a sync frame offering a packet-window resynchronisation gives up on everything below its packet id:
                 \* no Persistent / Reliable packet with an unacknowledged fragment may be below it
                 \cup (IF Cur.kind = "S" /\ Cur.has_npid
                          /\ \E pr \in open[Cur.ep] : pr[1] < Cur.npid /\ sub[pr[2]].mode \in {"P", "R"}
                                                       /\ \E fg \in 0..(nfrag[pr[2]] - 1) : <<pr[2], fg>> \notin acked
                       THEN Flag("C12", "gave-up-on-unacknowledged-reliable-mode-fragment") ELSE {})
            /\ UNCHANGED <<obs, emitted, begun, tsFresh, open, frames>>
    /\ UNCHANGED <<sub, acked, passed, nfrag, stale, lastTxNext, honest>>

Bit(g, i) == IF i < 16 THEN (g.bits_lo \div (2 ^ i)) % 2 ELSE (g.bits_hi \div (2 ^ (i - 16))) % 2
SetBits(g) == {i \in 0..31 : Bit(g, i) = 1}
Xor(a, b) == a # b
RECURSIVE NonceXor(_, _, _)
NonceXor(F, g, S) == IF S = {} THEN FALSE
                     ELSE LET i == CHOOSE x \in S : TRUE IN Xor(F[g.base + i].nonce, NonceXor(F, g, S \ {i}))

GroupValid(F, g, lo, hi) ==
    LET S == SetBits(g) IN
    /\ S # {}
    /\ LET size == (CHOOSE m \in S : \A x \in S : x <= m) + 1 IN
       /\ \A i \in 0..(size - 1) : g.base + i >= lo /\ g.base + i < hi /\ (g.base + i) \in DOMAIN F
       /\ NonceXor(F, g, S) = g.nonce

GroupAcks(F, g) == UNION {F[g.base + i].frags : i \in SetBits(g)}

HandleAck ==
    /\ IsEvent("Handle") /\ Cur.kind = "A"
    /\ LET e == Cur.ep
           f == Cur.f
           F == frames[e]
           lo == Cur.pre_f_log_base
           hi == Cur.pre_f_next
           G == {i \in 1..Len(f.groups) : GroupValid(F, f.groups[i], lo, hi)}
           span == Cur.pre_tx_next - Cur.pre_tx_base
           delta == f.pbase - Cur.pre_tx_base
           pvalid == delta >= 0 /\ delta <= span /\ f.pbase < 1000000
           gone == IF pvalid THEN {p \in open[e] : p[1] < f.pbase} ELSE {}
       IN
       /\ acked' = acked \cup UNION {GroupAcks(F, f.groups[i]) : i \in G}
       /\ passed' = passed \cup {p[2] : p \in gone}
       /\ open' = [open EXCEPT ![e] = @ \ gone]
       /\ frames' = [frames EXCEPT ![e] = [k \in {x \in DOMAIN F : x >= lo} |-> F[k]]]
    /\ UNCHANGED <<sub, emitted, begun, tsFresh, nfrag, stale, lastTxNext, obs, honest, bad>>

HandleOther ==
    /\ IsEvent("Handle") /\ Cur.kind # "A"
    /\ UNCHANGED <<sub, emitted, begun, acked, passed, open, frames, tsFresh, nfrag, stale, lastTxNext, obs, honest, bad>>

(* the sender has come to rest: nothing pending, send buffer empty.  Every fragment of its Persistent / Reliable packets
   must by then have been acknowledged (a processed valid ack for a frame carrying it) or passed by the receiver. *)
Quiesced ==
    /\ IsEvent("Quiesced")
    /\ LET e == Cur.ep
           mine == {u \in 1..Len(sub) : sub[u].ep = e /\ sub[u].mode \in {"P", "R"}}
           left == {u \in mine : u \notin passed /\ \E fg \in 0..(nfrag[u] - 1) : <<u, fg>> \notin acked}
       IN bad' = bad \cup (IF honest /\ Cur.reached /\ ~Cur.pending /\ Cur.bufsize = 0 /\ ("tail" \notin DOMAIN Cur \/ Cur.tail # "receiver") /\ left # {}
                           THEN Flag("C12", "at-rest-although-a-reliable-mode-fragment-is-unacknowledged") ELSE {})
    /\ UNCHANGED <<sub, emitted, begun, acked, passed, open, frames, tsFresh, nfrag, stale, lastTxNext, obs, honest>>

Skip ==
    /\ IsOneOf({"End", "FaultsEnd", "Net", "Probe", "Deliver", "Ret", "Probes", "RecvEnd"})
    /\ UNCHANGED <<sub, emitted, begun, acked, passed, open, frames, tsFresh, nfrag, stale, lastTxNext, obs, honest, bad>>

Next == Reset \/ Send \/ Step \/ FlushEnd \/ Emit \/ HandleAck \/ HandleOther \/ Quiesced \/ Skip

Spec == Init /\ [][Next]_vars

AtEnd == l = NRec + 1
Brief == IF AtEnd THEN [l |-> l, bad |-> bad, obs |-> obs] ELSE [l |-> l]
Holds(p) == AtEnd => NoneFor(bad, p)
C12 == Holds("C12")
C04 == Holds("C04")
(* reporting hook for the driver: number of TimeSensitive packets first sent after the step
   although they had been given a packet id before it (observation F17, not a verdict) *)
ObsReport == AtEnd => PrintT(<<"OBS-LATE-AFTER-PULL", obs>>)
====================================================================================
