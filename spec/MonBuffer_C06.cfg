SPECIFICATION Spec
INVARIANT C06
POSTCONDITION Accepted
CHECK_DEADLOCK FALSE
ALIAS Brief
