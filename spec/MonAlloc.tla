--------------------------------- MODULE MonAlloc --------------------------------
(* Property monitor for C19: the allocator contract on every heap block the library allocated,
   and no such block left after its objects were dropped.  The trace lists, in program order,
   every alloc (A), dealloc (D) and realloc (R) that concerns a block obtained while a library
   call was on the stack; pointers are renamed to small integers in order of appearance. *)
EXTENDS TraceIO

VARIABLES live, nops, bad
vars == <<l, live, nops, bad>>
Flag(p, why) == IF Cardinality(bad) < 200 THEN {<<p, why, l>>} ELSE {}

Init == l = 1 /\ live = <<>> /\ nops = 0 /\ bad = {}       \* live: function id -> [size, align]

Reset == /\ IsEvent("Reset") /\ live' = <<>> /\ UNCHANGED <<nops, bad>>

A == /\ IsEvent("A")
     /\ live' = (Cur.p :> [size |-> Cur.size, align |-> Cur.align]) @@ live
     /\ bad' = bad \cup (IF Cur.p \in DOMAIN live THEN Flag("C19", "allocator-returned-a-live-block") ELSE {})
     /\ nops' = nops + 1

Rest(f, p) == [x \in DOMAIN f \ {p} |-> f[x]]

D == /\ IsEvent("D")
     /\ LET known == Cur.p \in DOMAIN live IN
        /\ bad' = bad
             \cup (IF ~known THEN Flag("C19", "block-released-twice") ELSE {})
             \cup (IF known /\ live[Cur.p].size # Cur.size THEN Flag("C19", "released-with-a-different-size-than-allocated") ELSE {})
             \cup (IF known /\ live[Cur.p].align # Cur.align THEN Flag("C19", "released-with-a-different-alignment-than-allocated") ELSE {})
        /\ live' = IF known THEN Rest(live, Cur.p) ELSE live
     /\ nops' = nops + 1

R == /\ IsEvent("R")
     /\ LET known == Cur.p \in DOMAIN live IN
        /\ bad' = bad
             \cup (IF ~known THEN Flag("C19", "realloc-of-a-block-not-live") ELSE {})
             \cup (IF known /\ (live[Cur.p].size # Cur.size \/ live[Cur.p].align # Cur.align) THEN Flag("C19", "realloc-with-a-different-layout-than-allocated") ELSE {})
        /\ live' = (Cur.q :> [size |-> Cur.new_size, align |-> Cur.align]) @@ (IF known THEN Rest(live, Cur.p) ELSE live)
     /\ nops' = nops + 1

Teardown ==
     /\ IsEvent("Teardown")
     /\ bad' = bad \cup (IF DOMAIN live # {} THEN Flag("C19", "memory-not-returned-after-drop") ELSE {})
                   \cup (IF Cur.overflow THEN Flag("C19", "recorder-overflow") ELSE {})
     /\ UNCHANGED <<live, nops>>

Skip == /\ IsOneOf({"End", "Phase", "Ret"}) /\ UNCHANGED <<live, nops, bad>>

Next == Reset \/ A \/ D \/ R \/ Teardown \/ Skip
Spec == Init /\ [][Next]_vars
AtEnd == l = NRec + 1
Brief == IF AtEnd THEN [l |-> l, bad |-> bad, nops |-> nops] ELSE [l |-> l]
C19 == AtEnd => NoneFor(bad, "C19")
Report == AtEnd => PrintT(<<"ALLOC-REPORT", nops>>)
====================================================================================
