--------------------------------- MODULE DataPlane --------------------------------
(* Implementation-shaped model of one data direction of a uflow connection:

       application --send--> [ sender half of endpoint a ] ==data/sync frames==> [ receiver half of endpoint b ] --receive--> application
                              ^                                                   |
                              +================ ack frames =======================+

   One action per public call of HalfConnection, with the state split the code has
   (the files under src/half_connection): send queue, packet window with parent leads and allocation budget,
   pending-fragment FIFO, resend heap, frame log and transfer window on the sending side; frame
   receive window, ack-group queue, assembly window, receive window entries, channel bases and
   ready flags on the receiving side.  The network (lose / duplicate / deliver in any order), the
   application and the timers are separate, independently enabled actions, so TLC explores every
   interleaving of every fault pattern within the constants.

   flush() is modelled in the regime the conformance harness drives (send credit 0 at every
   flush, DESIGN.md 3.6): exactly one frame leaves per flush, in the code's priority order
   ack > due resend > pending fragment > sync, with the code's side effects on the way (lazy
   purging of the resend heap, pulling one more packet into the pending queue after an
   emission, rate-limit marking omitted).  Time is modelled by its two observable effects:
   `Timeout` makes every entry of the resend heap due and arms the sync timer; the resend heap
   is the concatenation resDue \o resNew, each ordered as the binary heap orders resend times.
   Sequence numbers live in 0..PMod-1 and 0..FMod-1 with the code's modular comparisons; the
   initial values are chosen next to the wrap-around.                                       *)
EXTENDS Integers, Sequences, FiniteSets, Bags, TLC

CONSTANTS
    PW, FW,             \* packet / frame window sizes
    PMod, FMod,         \* sequence number moduli (2^20 and 2^32 in the code)
    PBase0, FBase0,     \* initial sequence numbers
    Chans,              \* channel ids
    Modes,              \* subset of {"T","U","P","R"} the application uses
    FragCounts,         \* possible fragment counts of a packet
    TxAlloc, RxAlloc,   \* allocation budgets in fragment units (sender's view of the peer / receiver's own)
    MaxSend,            \* packets the application submits
    MaxFrames,          \* bound on data frames emitted (keeps ids unambiguous in the small modulus)
    MaxSyncs,           \* bound on sync frames emitted
    MaxEpoch,           \* bound on step() calls of the sender (flush id)
    NetCap,             \* frames in flight per direction
    Faults,             \* loss + duplication budget
    GW,                 \* ack group width (32 in the code)
    Keepalive,          \* BOOLEAN
    FreeNonce           \* BOOLEAN: frame nonces chosen freely (needed only when acks can be forged) or fixed by the frame id

None == -1
PAdd(a, b) == (a + b) % PMod
PSub(a, b) == (a + PMod - b) % PMod          \* packet_id::sub
FAdd(a, b) == (a + b) % FMod
FSub(a, b) == (a + FMod - b) % FMod          \* u32 wrapping_sub
Slot(pid) == pid % PW

VARIABLES
    \* application (history)
    submitted,      \* sequence of [ch, mode, nf]; uid = index
    delivered,      \* sequence of uids handed to the receiving application
    \* sender: PacketSender
    sq,             \* send queue: sequence of [uid, ep]
    epoch,          \* flush id
    sBase, sNext,   \* packet window
    sWin,           \* [pid -> [uid, nf, acked]] for the pids in [sBase, sNext)
    sWinParent,     \* id of the latest Reliable packet in the window, or None
    sChParent,      \* per channel
    sAlloc,         \* fragment units in the window
    sTotal,         \* send_buffer_size() in fragment units
    \* sender: pending queue, resend heap, frame queue
    pendq,          \* sequence of [pid, frag, resend]
    resDue, resNew, \* resend heap = resDue \o resNew; entries [pid, frag, m] with m = back-off multiplier
    fNext, fWinBase, fLogBase,
    fLog,           \* [fid -> [frags, nonce, acked]] for fids in [fLogBase, fNext)
    syncDue,        \* the sync timer has expired (since the last data or sync frame)
    nframes,        \* data frames emitted so far (bound only)
    nsyncs,         \* sync frames emitted so far (bound only)
    \* receiver
    rfBase,         \* frame receive window base
    ackq,           \* sequence of [base, bits, nonce]
    syncReply,
    asm,            \* [slot -> [k |-> "Open"] | [k |-> "Active", ch, wpl, cpl, last, got, uid, alloc] | [k |-> "Closed", alloc]]
    rAlloc,
    rBase, rEnd,
    entry,          \* [slot -> [ch, cpl, wpl, uid]]  (uid = 0 for a data-less placeholder)
    entryFlag, dataFlag,   \* sets of slots
    chBase,         \* [Chans -> pid or None]
    chCount,        \* [Chans -> Nat]
    chReady,        \* set of channels
    winReady,
    \* network
    netD, netA,     \* bags of frames in flight (the network does not preserve order)
    faults

sender == <<sq, epoch, sBase, sNext, sWin, sWinParent, sChParent, sAlloc, sTotal, pendq, resDue, resNew, fNext, fWinBase, fLogBase, fLog, syncDue, nframes, nsyncs>>
receiver == <<rfBase, ackq, syncReply, asm, rAlloc, rBase, rEnd, entry, entryFlag, dataFlag, chBase, chCount, chReady, winReady>>
vars == <<submitted, delivered, sender, receiver, netD, netA, faults>>

Slots == 0..(PW - 1)
NoEntry == [ch |-> 0, cpl |-> 0, wpl |-> 0, uid |-> 0]

InitWith(subs) ==
    /\ submitted = subs /\ delivered = <<>>
    /\ sq = <<>> /\ epoch = 0 /\ sBase = PBase0 /\ sNext = PBase0 /\ sWin = <<>>
    /\ sWinParent = None /\ sChParent = [c \in Chans |-> None] /\ sAlloc = 0 /\ sTotal = 0
    /\ pendq = <<>> /\ resDue = <<>> /\ resNew = <<>>
    /\ fNext = FBase0 /\ fWinBase = FBase0 /\ fLogBase = FBase0 /\ fLog = <<>> /\ syncDue = FALSE /\ nframes = 0 /\ nsyncs = 0
    /\ rfBase = FBase0 /\ ackq = <<>> /\ syncReply = FALSE
    /\ asm = [s \in Slots |-> [k |-> "Open"]] /\ rAlloc = 0 /\ rBase = PBase0 /\ rEnd = PBase0
    /\ entry = [s \in Slots |-> NoEntry] /\ entryFlag = {} /\ dataFlag = {}
    /\ chBase = [c \in Chans |-> None] /\ chCount = [c \in Chans |-> 0] /\ chReady = {} /\ winReady = FALSE
    /\ netD = EmptyBag /\ netA = EmptyBag /\ faults = Faults

Init == InitWith(<<>>)

\* ================================================================================ application
AppSend(c, m, nf) ==
    /\ Len(submitted) < MaxSend
    /\ nf <= TxAlloc                          \* send() refuses packets larger than the peer's allocation
    /\ submitted' = Append(submitted, [ch |-> c, mode |-> m, nf |-> nf])
    /\ sq' = Append(sq, [uid |-> Len(submitted) + 1, ep |-> epoch])
    /\ sTotal' = sTotal + nf
    /\ UNCHANGED <<delivered, epoch, sBase, sNext, sWin, sWinParent, sChParent, sAlloc, pendq, resDue, resNew, fNext, fWinBase, fLogBase, fLog, syncDue, nframes, nsyncs,
                   receiver, netD, netA, faults>>

(* step() of the sender as far as the data plane sees it: stale TimeSensitive packets *)
SenderStep ==
    /\ epoch < MaxEpoch
    /\ epoch' = epoch + 1
    /\ UNCHANGED <<submitted, delivered, sq, sBase, sNext, sWin, sWinParent, sChParent, sAlloc, sTotal, pendq, resDue, resNew, fNext, fWinBase, fLogBase, fLog, syncDue, nframes, nsyncs,
                   receiver, netD, netA, faults>>

(* enough time passes for every resend entry to become due and for the sync timer to expire *)
Timeout ==
    /\ (resNew # <<>> \/ ~syncDue)
    /\ resDue' = resDue \o resNew /\ resNew' = <<>> /\ syncDue' = TRUE
    /\ UNCHANGED <<submitted, delivered, sq, epoch, sBase, sNext, sWin, sWinParent, sChParent, sAlloc, sTotal, pendq, fNext, fWinBase, fLogBase, fLog, nframes, nsyncs,
                   receiver, netD, netA, faults>>

\* ================================================================================ sender: flush()
Mode(uid) == submitted[uid].mode
InWin(pid) == pid \in DOMAIN sWin
FragAcked(w, e) == e.pid \notin DOMAIN w \/ e.frag \in w[e.pid].acked      \* packet released, or fragment acknowledged

(* the heap pops entries whose packet is gone or whose fragment is acknowledged only when they
   reach the top *)
RECURSIVE PurgeHeap(_, _, _)
PurgeHeap(w, due, new) ==
    IF due # <<>> THEN (IF FragAcked(w, Head(due)) THEN PurgeHeap(w, Tail(due), new) ELSE <<due, new>>)
    ELSE IF new # <<>> THEN (IF FragAcked(w, Head(new)) THEN PurgeHeap(w, due, Tail(new)) ELSE <<due, new>>)
    ELSE <<due, new>>

(* the front of the pending queue, as the pending loop of emit_data_frames treats it before it tries to push:
   entries whose fragment is acknowledged (or whose packet is gone) are dropped; a TimeSensitive packet whose first
   fragment is still waiting although step() has been called since it was submitted is discarded as a whole (its
   fragments count as acknowledged from then on, its bytes leave the send buffer size at once and not again when the
   window entry is released).  st: any record with fields pendq, sWin, sTotal *)
StaleT(w, e) == e.frag = 0 /\ Mode(w[e.pid].uid) = "T" /\ w[e.pid].ep # epoch
RECURSIVE PurgePend(_)
PurgePend(st) ==
    IF st.pendq = <<>> THEN st
    ELSE LET e == Head(st.pendq) IN
         IF FragAcked(st.sWin, e) THEN PurgePend([st EXCEPT !.pendq = Tail(@)])
         ELSE IF StaleT(st.sWin, e)
              THEN PurgePend([st EXCEPT !.pendq = Tail(@),
                                        !.sWin = [@ EXCEPT ![e.pid] = [@ EXCEPT !.acked = 0..(st.sWin[e.pid].nf - 1), !.disc = TRUE]],
                                        !.sTotal = @ - st.sWin[e.pid].nf])
              ELSE st

(* position of a new heap entry with multiplier m among the entries created since the last Timeout:
   after every entry whose multiplier is not larger (resend time = now + rtt * m, now increasing) *)
RECURSIVE InsertNew(_, _)
InsertNew(new, e) == IF new = <<>> THEN <<e>>
                     ELSE IF Head(new).m <= e.m THEN <<Head(new)>> \o InsertNew(Tail(new), e)
                     ELSE <<e>> \o new

(* PacketSender::emit_packet: discard stale TimeSensitive packets, then assign an id to the
   front packet if the window and the peer's allocation have room.  Returns the new sender
   packet state and the fragments for the pending queue. *)
RECURSIVE DropStale(_, _)
DropStale(q, tot) == IF q # <<>> /\ Mode(Head(q).uid) = "T" /\ Head(q).ep # epoch
                     THEN DropStale(Tail(q), tot - submitted[Head(q).uid].nf)
                     ELSE <<q, tot>>

Pull(st) ==     \* st: [sq, sTotal, sNext, sWin, sWinParent, sChParent, sAlloc, pendq]
    LET ds == DropStale(st.sq, st.sTotal)
        q == ds[1]
    IN  IF q = <<>> THEN [st EXCEPT !.sq = q, !.sTotal = ds[2], !.pulled = FALSE]
        ELSE LET u == Head(q).uid
                 p == submitted[u]
             IN  IF PSub(st.sNext, sBase) >= PW \/ st.sAlloc + p.nf > TxAlloc
                 THEN [st EXCEPT !.sq = q, !.sTotal = ds[2], !.pulled = FALSE]
                 ELSE LET pid == st.sNext
                          wpl == IF st.sWinParent = None THEN 0 ELSE PSub(pid, st.sWinParent)
                          cpl == IF st.sChParent[p.ch] = None THEN 0 ELSE PSub(pid, st.sChParent[p.ch])
                          rs == p.mode \in {"P", "R"}
                      IN  [st EXCEPT !.sq = Tail(q), !.sTotal = ds[2], !.pulled = TRUE,
                                     !.sNext = PAdd(pid, 1),
                                     !.sWin = (pid :> [uid |-> u, nf |-> p.nf, acked |-> {}, wpl |-> wpl, cpl |-> cpl, ep |-> Head(q).ep, disc |-> FALSE]) @@ @,
                                     !.sWinParent = IF p.mode = "R" THEN pid ELSE @,
                                     !.sChParent = IF p.mode = "R" THEN [@ EXCEPT ![p.ch] = pid] ELSE @,
                                     !.sAlloc = @ + p.nf,
                                     !.pendq = [i \in 1..p.nf |-> [pid |-> pid, frag |-> i - 1, resend |-> rs]]]

CanPush == FSub(fNext, fWinBase) < FW

DataFrame(w, e, nonce) ==
    LET x == w[e.pid] p == submitted[x.uid] IN
    [t |-> "D", fid |-> fNext, nonce |-> nonce, pid |-> e.pid, ch |-> p.ch, wpl |-> x.wpl, cpl |-> x.cpl,
     frag |-> e.frag, last |-> x.nf - 1, uid |-> x.uid]

(* after the one frame of this flush has been built: keep purging / pulling until the next push
   would be attempted (it fails for lack of credit), exactly as the loops in emit_data_frames do *)
RECURSIVE AfterEmit(_)
AfterEmit(st) ==
    LET s1 == PurgePend(st) IN
    IF s1.pendq # <<>> THEN s1
    ELSE LET st2 == Pull(s1) IN
         IF st2.pulled THEN AfterEmit(st2) ELSE st2

SenderState == [sq |-> sq, sTotal |-> sTotal, sNext |-> sNext, sWin |-> sWin, sWinParent |-> sWinParent, sChParent |-> sChParent,
                sAlloc |-> sAlloc, pendq |-> pendq, pulled |-> FALSE]

SyncFrame ==
    [t |-> "S",
     nfid |-> IF fNext # fWinBase THEN fNext ELSE None,
     npid |-> IF sNext # sBase /\ resDue = <<>> /\ resNew = <<>> /\ pendq = <<>> THEN sNext ELSE None]

(* flush() of the sending endpoint with credit 0 *)
FlushS(nonce) ==
    /\ BagCardinality(netD) < NetCap
    /\ LET hp == PurgeHeap(sWin, resDue, resNew)
           due == hp[1] new == hp[2]
       IN
       IF due # <<>> THEN
            \* ---- a resend is due
            IF CanPush /\ nframes < MaxFrames THEN
                LET e == Head(due)
                    m2 == IF e.m = 1 THEN 2 ELSE 4
                    hp2 == PurgeHeap(sWin, Tail(due), InsertNew(new, [e EXCEPT !.m = m2]))
                    \* if another resend is due its push fails; otherwise the pending loop runs once more
                    st == IF hp2[1] # <<>> THEN SenderState ELSE AfterEmit(SenderState)
                IN  /\ netD' = netD (+) SetToBag({DataFrame(sWin, e, nonce)})
                    /\ fLog' = (fNext :> [frags |-> {<<e.pid, e.frag>>}, nonce |-> nonce, acked |-> FALSE]) @@ fLog
                    /\ fNext' = FAdd(fNext, 1) /\ nframes' = nframes + 1 /\ syncDue' = FALSE /\ nsyncs' = nsyncs
                    /\ resDue' = hp2[1] /\ resNew' = hp2[2]
                    /\ sq' = st.sq /\ sTotal' = st.sTotal /\ sNext' = st.sNext /\ sWin' = st.sWin /\ sWinParent' = st.sWinParent
                    /\ sChParent' = st.sChParent /\ sAlloc' = st.sAlloc /\ pendq' = st.pendq
            ELSE \* window limited: the data phase ends, the sync phase runs
                /\ resDue' = due /\ resNew' = new
                /\ IF syncDue /\ (SyncFrame.nfid # None \/ SyncFrame.npid # None \/ Keepalive)
                   THEN netD' = netD (+) SetToBag({SyncFrame}) /\ syncDue' = FALSE /\ nsyncs' = nsyncs + 1
                   ELSE UNCHANGED <<netD, syncDue, nsyncs>>
                /\ UNCHANGED <<sq, sTotal, sNext, sWin, sWinParent, sChParent, sAlloc, pendq, fLog, fNext, nframes>>
       ELSE
            \* ---- pending fragments: purge, pull if empty, emit the front
            LET st0 == AfterEmit(SenderState)      \* same purge / pull loop, before any emission
            IN  IF st0.pendq # <<>> /\ CanPush /\ nframes < MaxFrames THEN
                    LET e == Head(st0.pendq)
                        st1 == AfterEmit([st0 EXCEPT !.pendq = Tail(st0.pendq)])
                        new1 == IF e.resend THEN InsertNew(new, [pid |-> e.pid, frag |-> e.frag, m |-> 1]) ELSE new
                    IN  /\ netD' = netD (+) SetToBag({DataFrame(st0.sWin, e, nonce)})
                        /\ fLog' = (fNext :> [frags |-> IF e.resend THEN {<<e.pid, e.frag>>} ELSE {}, nonce |-> nonce, acked |-> FALSE]) @@ fLog
                        /\ fNext' = FAdd(fNext, 1) /\ nframes' = nframes + 1 /\ syncDue' = FALSE /\ nsyncs' = nsyncs
                        /\ resDue' = due /\ resNew' = new1
                        /\ sq' = st1.sq /\ sTotal' = st1.sTotal /\ sNext' = st1.sNext /\ sWin' = st1.sWin /\ sWinParent' = st1.sWinParent
                        /\ sChParent' = st1.sChParent /\ sAlloc' = st1.sAlloc /\ pendq' = st1.pendq
                ELSE \* nothing can be emitted: window limited or nothing to send -> sync phase
                    /\ sq' = st0.sq /\ sTotal' = st0.sTotal /\ sNext' = st0.sNext /\ sWin' = st0.sWin /\ sWinParent' = st0.sWinParent
                    /\ sChParent' = st0.sChParent /\ sAlloc' = st0.sAlloc /\ pendq' = st0.pendq
                    /\ resDue' = due /\ resNew' = new
                    /\ LET sf == [t |-> "S",
                                  nfid |-> IF fNext # fWinBase THEN fNext ELSE None,
                                  npid |-> IF st0.sNext # sBase /\ due = <<>> /\ new = <<>> /\ st0.pendq = <<>> THEN st0.sNext ELSE None]
                       IN IF syncDue /\ (sf.nfid # None \/ sf.npid # None \/ Keepalive)
                          THEN netD' = netD (+) SetToBag({sf}) /\ syncDue' = FALSE /\ nsyncs' = nsyncs + 1
                          ELSE UNCHANGED <<netD, syncDue, nsyncs>>
                    /\ UNCHANGED <<fLog, fNext, nframes>>
    /\ UNCHANGED <<submitted, delivered, epoch, sBase, fWinBase, fLogBase, receiver, netA, faults>>

\* ================================================================================ sender: handle_ack_frame
HighBit(bits) == CHOOSE m \in bits : \A x \in bits : x <= m
RECURSIVE XorNonce(_, _, _)
XorNonce(log, base, bits) == IF bits = {} THEN FALSE
                             ELSE LET i == CHOOSE x \in bits : TRUE IN (log[FAdd(base, i)].nonce # XorNonce(log, base, bits \ {i}))

InLog(log, lb, fid) == FSub(fid, lb) < Cardinality(DOMAIN log)        \* FrameLog::get_frame
GroupValid(log, lb, g) ==
    /\ g.bits # {}
    /\ \A i \in 0..HighBit(g.bits) : InLog(log, lb, FAdd(g.base, i))
    /\ XorNonce(log, g.base, g.bits) = g.nonce

(* acknowledge_group: returns <<log, window>> after marking frames and fragments *)
ApplyGroup(log, lb, w, g) ==
    IF ~GroupValid(log, lb, g) THEN <<log, w>>
    ELSE LET fids == {FAdd(g.base, i) : i \in g.bits}
             newly == {f \in fids : ~log[f].acked}
             pairs == UNION {log[f].frags : f \in newly}
             log2 == [f \in DOMAIN log |-> IF f \in newly THEN [log[f] EXCEPT !.acked = TRUE, !.frags = {}] ELSE log[f]]
             w2 == [p \in DOMAIN w |-> [w[p] EXCEPT !.acked = @ \cup {pr[2] : pr \in {q \in pairs : q[1] = p}}]]
         IN <<log2, w2>>

RECURSIVE ApplyGroups(_, _, _, _)
ApplyGroups(log, lb, w, gs) == IF gs = <<>> THEN <<log, w>>
                               ELSE LET r == ApplyGroup(log, lb, w, Head(gs)) IN ApplyGroups(r[1], lb, r[2], Tail(gs))

(* PacketSender::acknowledge: release the packets the receiver has moved past *)
RECURSIVE Release(_, _)
Release(st, upto) ==    \* st: [sBase, sWin, sWinParent, sChParent, sAlloc, sTotal]
    IF st.sBase = upto THEN st
    ELSE LET b == st.sBase  x == st.sWin[b]  c == submitted[x.uid].ch IN
         Release([sBase |-> PAdd(b, 1),
                  sWin |-> [p \in DOMAIN st.sWin \ {b} |-> st.sWin[p]],
                  sWinParent |-> IF st.sWinParent = b THEN None ELSE st.sWinParent,
                  sChParent |-> IF st.sChParent[c] = b THEN [st.sChParent EXCEPT ![c] = None] ELSE st.sChParent,
                  sAlloc |-> st.sAlloc - x.nf,
                  sTotal |-> IF x.disc THEN st.sTotal ELSE st.sTotal - x.nf], upto)

HandleAck(f) ==
    LET r == ApplyGroups(fLog, fLogBase, sWin, f.groups)
        log1 == r[1]  w1 == r[2]
        \* advance_transfer_window
        d == FSub(f.fbase, fWinBase)
        canAdv == d # 0 /\ d <= FSub(fNext, fWinBase)
        wb == IF canAdv THEN f.fbase ELSE fWinBase
        maxBase == FSub(wb, FW)                       \* window base minus the log tail (tail size = FW)
        dl == FSub(maxBase, fLogBase)
        cull == canAdv /\ dl # 0 /\ dl <= Cardinality(DOMAIN log1)
        lb == IF cull THEN maxBase ELSE fLogBase
        log2 == IF cull THEN [x \in {y \in DOMAIN log1 : FSub(y, lb) < FSub(fNext, lb)} |-> log1[x]] ELSE log1
        \* PacketSender::acknowledge
        rd == PSub(f.pbase, sBase)
        st == IF rd <= PSub(sNext, sBase)
              THEN Release([sBase |-> sBase, sWin |-> w1, sWinParent |-> sWinParent, sChParent |-> sChParent, sAlloc |-> sAlloc, sTotal |-> sTotal], f.pbase)
              ELSE [sBase |-> sBase, sWin |-> w1, sWinParent |-> sWinParent, sChParent |-> sChParent, sAlloc |-> sAlloc, sTotal |-> sTotal]
    IN
    /\ fLog' = log2 /\ fLogBase' = lb /\ fWinBase' = wb
    /\ sBase' = st.sBase /\ sWin' = st.sWin /\ sWinParent' = st.sWinParent /\ sChParent' = st.sChParent /\ sAlloc' = st.sAlloc /\ sTotal' = st.sTotal
    /\ UNCHANGED <<sq, epoch, sNext, pendq, resDue, resNew, fNext, syncDue, nframes, nsyncs>>

\* ================================================================================ receiver: flush()
FlushR ==
    /\ BagCardinality(netA) < NetCap
    /\ (syncReply \/ ackq # <<>>)
    /\ IF syncReply
       THEN /\ netA' = netA (+) SetToBag({[t |-> "A", fbase |-> rfBase, pbase |-> rBase, groups |-> <<>>]})
            /\ syncReply' = FALSE /\ UNCHANGED ackq
       ELSE /\ netA' = netA (+) SetToBag({[t |-> "A", fbase |-> rfBase, pbase |-> rBase, groups |-> <<Head(ackq)>>]})
            /\ ackq' = Tail(ackq) /\ UNCHANGED syncReply
    /\ UNCHANGED <<submitted, delivered, sender, rfBase, asm, rAlloc, rBase, rEnd, entry, entryFlag, dataFlag, chBase, chCount, chReady, winReady, netD, faults>>

\* ================================================================================ receiver: handle_data_frame
MarkSeen(q, fid, nonce) ==
    IF q = <<>> THEN <<[base |-> fid, bits |-> {0}, nonce |-> nonce]>>
    ELSE LET la == q[Len(q)]  bit == FSub(fid, la.base) IN
         IF bit < GW
         THEN (IF bit \in la.bits THEN q ELSE [q EXCEPT ![Len(q)] = [la EXCEPT !.bits = @ \cup {bit}, !.nonce = (@ # nonce)]])
         ELSE Append(q, [base |-> fid, bits |-> {0}, nonce |-> nonce])

ForgedUid == 999      \* uid carried by forged datagrams; no submitted packet has it

(* datagram_is_valid of the code, as far as the model's frames can express it (payload lengths are always
   well-formed in the model) *)
DatagramValid(f) == /\ (f.cpl # 0 => (f.wpl # 0 /\ f.cpl >= f.wpl))
                    /\ f.frag <= f.last

(* PacketReceiver::handle_datagram for the single datagram of the frame *)
HandleDatagram(f) ==
    LET cb == IF chBase[f.ch] = None THEN rBase ELSE chBase[f.ch]
        chLead == PSub(cb, rBase)
        pkLead == PSub(f.pid, rBase)
        s == Slot(f.pid)
        a == asm[s]
        nfr == f.last + 1
    IN
    IF ~DatagramValid(f) \/ pkLead >= PW \/ pkLead < chLead THEN UNCHANGED <<asm, rAlloc, rEnd, entry, entryFlag, dataFlag, chCount, chReady, winReady>>
    ELSE
    LET \* AssemblyWindow::try_add -> <<new asm entry, new alloc, completed packet uid or -1 (0 = placeholder)>>
        res == IF a.k = "Open" THEN
                   (IF rAlloc + nfr > RxAlloc THEN <<[k |-> "Closed", alloc |-> 0], rAlloc, 0>>
                    ELSE IF f.last = 0 THEN <<[k |-> "Closed", alloc |-> nfr], rAlloc + nfr, f.uid>>
                    ELSE <<[k |-> "Active", ch |-> f.ch, wpl |-> f.wpl, cpl |-> f.cpl, last |-> f.last, got |-> {f.frag}, uid |-> f.uid, alloc |-> nfr], rAlloc + nfr, -1>>)
               ELSE IF a.k = "Closed" THEN <<a, rAlloc, -1>>
               ELSE IF f.ch # a.ch \/ f.wpl # a.wpl \/ f.cpl # a.cpl \/ f.last # a.last THEN <<a, rAlloc, -1>>
               ELSE LET got == a.got \cup {f.frag}
                        \* a packet assembled from fragments of different origin (possible only with a hostile peer) is
                        \* not any submitted packet
                        u == IF f.frag \in a.got \/ f.uid = a.uid THEN a.uid ELSE ForgedUid
                    IN
                    IF Cardinality(got) = a.last + 1 THEN <<[k |-> "Closed", alloc |-> a.alloc], rAlloc, u>>
                    ELSE <<[a EXCEPT !.got = got, !.uid = u], rAlloc, -1>>
        done == res[3] # -1
        chDelta == PSub(f.pid, cb)
    IN
    /\ asm' = [asm EXCEPT ![s] = res[1]]
    /\ rAlloc' = res[2]
    /\ IF done
       THEN /\ entry' = [entry EXCEPT ![s] = [ch |-> f.ch, cpl |-> f.cpl, wpl |-> f.wpl, uid |-> res[3]]]
            /\ entryFlag' = entryFlag \cup {s} /\ dataFlag' = dataFlag \cup {s}
            /\ rEnd' = IF PSub(f.pid, rEnd) < PW THEN PAdd(f.pid, 1) ELSE rEnd
            /\ chCount' = [chCount EXCEPT ![f.ch] = @ + 1]
            /\ chReady' = IF f.cpl = 0 \/ f.cpl > chDelta THEN chReady \cup {f.ch} ELSE chReady
            /\ winReady' = (winReady \/ f.wpl = 0 \/ f.wpl > pkLead)
       ELSE UNCHANGED <<entry, entryFlag, dataFlag, rEnd, chCount, chReady, winReady>>

HandleData(f) ==
    /\ IF FSub(f.fid, rfBase) < FW
       THEN /\ rfBase' = FAdd(f.fid, 1)
            /\ ackq' = MarkSeen(ackq, f.fid, f.nonce)
            /\ HandleDatagram(f)
       ELSE UNCHANGED <<rfBase, ackq, asm, rAlloc, rEnd, entry, entryFlag, dataFlag, chCount, chReady, winReady>>
    /\ UNCHANGED <<syncReply, rBase, chBase>>

MarkerFromZero == FALSE

\* ------------------------------------------------------------------ advance_window / resynchronize
(* PacketReceiver::advance_window(nb): returns the changed receiver fields *)
AdvanceTo(nb, asm0, alloc0, flags0, end0, chb0) ==
    LET passedIds == {PAdd(rBase, i) : i \in 0..(PSub(nb, rBase) - 1)}                \* ids base .. nb-1
        passed == {Slot(p) : p \in passedIds}
        freed == [s \in Slots |-> IF s \in passed /\ asm0[s].k # "Open" THEN asm0[s].alloc ELSE 0]
        RECURSIVE Sum(_)
        Sum(S) == IF S = {} THEN 0 ELSE LET x == CHOOSE y \in S : TRUE IN freed[x] + Sum(S \ {x})
        \* channel base markers at ids base+1 .. nb are unset.  The markers live in a ring of PW slots, so the slot of
        \* the old base is also the slot of base + PW, a legal channel base; MarkerFromZero (FALSE; overridden by the
        \* non-vacuity configuration of MC_Recv) also clears that slot, which is the slip of the seeded changes for C01
        unsetSlots == {Slot(PAdd(p, 1)) : p \in passedIds} \cup (IF MarkerFromZero THEN {Slot(rBase)} ELSE {})
    IN  [asm |-> [s \in Slots |-> IF s \in passed THEN [k |-> "Open"] ELSE asm0[s]],
         alloc |-> alloc0 - Sum(passed),
         eflags |-> flags0 \ passed,
         end |-> IF PSub(end0, rBase) < PSub(nb, rBase) THEN nb ELSE end0,
         chb |-> [c \in Chans |-> IF chb0[c] # None /\ Slot(chb0[c]) \in unsetSlots THEN None ELSE chb0[c]],
         base |-> nb]

RECURSIVE ResyncStop(_, _)
ResyncStop(id, upto) == IF id = upto \/ Slot(id) \in entryFlag THEN id ELSE ResyncStop(PAdd(id, 1), upto)

(* FALSE; overridden by the non-vacuity configuration MC_RecvSync_endwalk.cfg: the walk is bounded by the receiver's end id
   instead of the sender's next id and jumps to the latter when it finds no entry - the slip of the seeded change C02_b7,
   harmless for a sync frame that arrives in order, fatal for one that arrives after newer data *)
ResyncBoundedByEnd == FALSE
ResyncTarget(npid) == IF ResyncBoundedByEnd THEN (LET s == ResyncStop(rBase, rEnd) IN IF s = rEnd THEN npid ELSE s) ELSE ResyncStop(rBase, npid)

HandleSync(f) ==
    /\ rfBase' = IF f.nfid # None /\ FSub(f.nfid, rfBase) > 0 /\ FSub(f.nfid, rfBase) <= FW THEN f.nfid ELSE rfBase
    /\ IF f.npid # None /\ PSub(f.npid, rBase) <= PW
       THEN LET r == AdvanceTo(ResyncTarget(f.npid), asm, rAlloc, entryFlag, rEnd, chBase) IN
            /\ asm' = r.asm /\ rAlloc' = r.alloc /\ entryFlag' = r.eflags /\ rEnd' = r.end /\ chBase' = r.chb /\ rBase' = r.base
       ELSE UNCHANGED <<asm, rAlloc, entryFlag, rEnd, chBase, rBase>>
    /\ syncReply' = TRUE
    /\ UNCHANGED <<ackq, entry, dataFlag, chCount, chReady, winReady>>

\* ================================================================================ receiver: receive()
(* the delivery walk over base .. end-1; st: [out, data, count, ready, chb] *)
RECURSIVE DeliverWalk(_, _)
DeliverWalk(id, st) ==
    IF id = rEnd \/ st.ready = {} THEN st
    ELSE LET s == Slot(id) IN
         IF s \notin st.data THEN DeliverWalk(PAdd(id, 1), st)
         ELSE LET e == entry[s] IN
              IF e.ch \notin st.ready THEN DeliverWalk(PAdd(id, 1), st)
              ELSE LET cb == IF st.chb[e.ch] = None THEN rBase ELSE st.chb[e.ch]
                       delta == PSub(id, cb)
                   IN  IF e.cpl = 0 \/ e.cpl > delta
                       THEN DeliverWalk(PAdd(id, 1),
                                [out |-> IF e.uid # 0 THEN Append(st.out, e.uid) ELSE st.out,       \* a placeholder has no data to deliver
                                 data |-> st.data \ {s},
                                 count |-> [st.count EXCEPT ![e.ch] = @ - 1],
                                 ready |-> IF st.count[e.ch] = 1 THEN st.ready \ {e.ch} ELSE st.ready,
                                 chb |-> [st.chb EXCEPT ![e.ch] = PAdd(id, 1)]])
                       ELSE DeliverWalk(PAdd(id, 1), [st EXCEPT !.ready = @ \ {e.ch}])

(* the window advancement walk; never advances past an entry that still holds data *)
RECURSIVE AdvanceWalk(_, _, _)
AdvanceWalk(id, nb, data) ==
    IF id = rEnd THEN nb
    ELSE LET s == Slot(id) IN
         IF s \notin entryFlag THEN AdvanceWalk(PAdd(id, 1), nb, data)
         ELSE LET w == entry[s].wpl IN
              IF (w = 0 \/ w > PSub(id, nb)) /\ s \notin data THEN AdvanceWalk(PAdd(id, 1), PAdd(id, 1), data)
              ELSE nb

Receive ==
    LET st == DeliverWalk(rBase, [out |-> <<>>, data |-> dataFlag, count |-> chCount, ready |-> chReady, chb |-> chBase]) IN
    /\ delivered' = delivered \o st.out
    /\ dataFlag' = st.data /\ chCount' = st.count /\ chReady' = st.ready
    /\ IF winReady
       THEN LET nb == AdvanceWalk(rBase, rBase, st.data)
                r == AdvanceTo(nb, asm, rAlloc, entryFlag, rEnd, st.chb)
            IN /\ asm' = r.asm /\ rAlloc' = r.alloc /\ entryFlag' = r.eflags /\ rEnd' = r.end /\ chBase' = r.chb /\ rBase' = r.base
               /\ winReady' = FALSE
       ELSE /\ chBase' = st.chb /\ UNCHANGED <<asm, rAlloc, entryFlag, rEnd, rBase, winReady>>
    /\ UNCHANGED <<submitted, sender, rfBase, ackq, syncReply, entry, netD, netA, faults>>

\* ================================================================================ network
One(f) == SetToBag({f})

DeliverD(f) ==
    /\ BagIn(f, netD)
    /\ netD' = netD (-) One(f)
    /\ IF f.t = "D" THEN HandleData(f) ELSE HandleSync(f)
    /\ UNCHANGED <<submitted, delivered, sender, netA, faults>>

DeliverA(f) ==
    /\ BagIn(f, netA)
    /\ netA' = netA (-) One(f)
    /\ HandleAck(f)
    /\ UNCHANGED <<submitted, delivered, receiver, netD, faults>>

LoseD(f) == /\ faults > 0 /\ BagIn(f, netD) /\ netD' = netD (-) One(f) /\ faults' = faults - 1
            /\ UNCHANGED <<submitted, delivered, sender, receiver, netA>>
LoseA(f) == /\ faults > 0 /\ BagIn(f, netA) /\ netA' = netA (-) One(f) /\ faults' = faults - 1
            /\ UNCHANGED <<submitted, delivered, sender, receiver, netD>>
DupD(f) == /\ faults > 0 /\ BagIn(f, netD) /\ BagCardinality(netD) < NetCap /\ netD' = netD (+) One(f) /\ faults' = faults - 1
           /\ UNCHANGED <<submitted, delivered, sender, receiver, netA>>
DupA(f) == /\ faults > 0 /\ BagIn(f, netA) /\ BagCardinality(netA) < NetCap /\ netA' = netA (+) One(f) /\ faults' = faults - 1
           /\ UNCHANGED <<submitted, delivered, sender, receiver, netD>>

(* A hostile or broken peer: an acknowledgement frame the receiver model would never produce, handed to the sender.
   The candidates sit around every guard of handle_ack_frame: group bases just before, at and just after the start
   of the frame log and at its end, every non-empty bit pattern over three positions (so a group can span ids before
   the log with only its in-log positions set), both nonce values, frame and packet window bases at and one beyond
   the sender's own bounds.  HandleAck is the same operator that consumes genuine frames.  Used by the behaviour
   generator (conformance under hostile input); the exhaustive configurations keep the peer honest. *)
ForgedGroups ==
    {<<>>} \cup {<<[base |-> b, bits |-> bs, nonce |-> n]>> :
                    b \in {FSub(fLogBase, 2), FSub(fLogBase, 1), fLogBase, FAdd(fLogBase, 1), FSub(fNext, 1), fNext},
                    bs \in (SUBSET {0, 1, 2}) \ {{}}, n \in BOOLEAN}
ForgedAcks ==
    {[t |-> "A", fbase |-> fb, pbase |-> pb, groups |-> g] :
        fb \in {fWinBase, FAdd(fWinBase, 1), fNext, FAdd(fNext, 1)},
        pb \in {sBase, PAdd(sBase, 1), sNext, PAdd(sNext, 1)},
        g \in ForgedGroups}
ForgeA(f) == /\ faults > 0 /\ faults' = faults - 1
             /\ HandleAck(f)
             /\ UNCHANGED <<submitted, delivered, receiver, netD, netA>>

(* ... and data / sync frames the sender model would never produce, handed to the receiver: frame ids just outside,
   at both ends of and just inside the frame receive window; packet ids likewise around the packet window and its
   end; every combination class of the parent leads (none, window only, both, channel without window - invalid -,
   channel smaller than window - invalid -, leads that point at or behind the base); fragment ids and counts
   incl. fragment id above the last id (invalid) and a fragment count above the receive allocation (placeholder).
   A forged packet carries the uid ForgedUid, which no submitted packet has. *)
ForgedData ==
    {[t |-> "D", fid |-> fi, nonce |-> FALSE, pid |-> pi, ch |-> c, wpl |-> l[1], cpl |-> l[2], frag |-> fr[1], last |-> fr[2], uid |-> ForgedUid] :
        fi \in {FSub(rfBase, 1), rfBase, FAdd(rfBase, 1), FAdd(rfBase, FW - 1), FAdd(rfBase, FW)},
        pi \in {PSub(rBase, 1), rBase, PAdd(rBase, 1), rEnd, PAdd(rBase, PW - 1), PAdd(rBase, PW)},
        c \in Chans,
        l \in {<<0, 0>>, <<1, 0>>, <<1, 1>>, <<2, 1>>, <<2, 2>>, <<0, 1>>, <<1, 2>>, <<3, 3>>},
        fr \in {<<0, 0>>, <<0, 1>>, <<1, 1>>, <<2, 1>>, <<0, 3>>}}
ForgedSyncs ==
    {[t |-> "S", nfid |-> nf, npid |-> np] :
        nf \in {None, rfBase, FAdd(rfBase, 1), FAdd(rfBase, FW), FAdd(rfBase, FW + 1)},
        np \in {None, rBase, PAdd(rBase, 1), rEnd, PAdd(rBase, PW), PAdd(rBase, PW + 1)}}
ForgeD(f) == /\ faults > 0 /\ faults' = faults - 1
             /\ IF f.t = "D" THEN HandleData(f) ELSE HandleSync(f)
             /\ UNCHANGED <<submitted, delivered, sender, netD, netA>>

Nonces == IF FreeNonce THEN BOOLEAN ELSE {fNext % 2 = 0}

Next ==
    \/ \E c \in Chans, m \in Modes, nf \in FragCounts : AppSend(c, m, nf)
    \/ SenderStep
    \/ Timeout
    \/ \E n \in Nonces : FlushS(n)
    \/ FlushR
    \/ Receive
    \/ \E f \in BagToSet(netD) : DeliverD(f) \/ LoseD(f) \/ DupD(f)
    \/ \E f \in BagToSet(netA) : DeliverA(f) \/ LoseA(f) \/ DupA(f)

Spec == Init /\ [][Next]_vars

\* ================================================================================ properties
Uids == 1..Len(submitted)
DeliveredSet == {delivered[i] : i \in 1..Len(delivered)}
OnChan(c) == SelectSeq(delivered, LAMBDA u : submitted[u].ch = c)
StrictlyIncreasing(q) == \A i \in 1..(Len(q) - 1) : q[i] < q[i + 1]

(* C01: per channel the delivered packets are a subsequence of the submitted ones, in order, at most once *)
InOrderAtMostOnce == \A c \in Chans : StrictlyIncreasing(OnChan(c))

(* C02 (safety): when a packet is delivered every earlier Reliable packet of its channel has been delivered before it *)
ReliableNeverSkipped ==
    \A i \in 1..Len(delivered) :
        \A r \in Uids : (submitted[r].mode = "R" /\ submitted[r].ch = submitted[delivered[i]].ch /\ r < delivered[i])
                        => \E j \in 1..i : delivered[j] = r

(* C06: the receiver's allocation stays within its limit; the sender stays within what the peer advertised;
   between honest endpoints no placeholder (refused packet) is ever created *)
RxAllocBound == rAlloc <= RxAlloc
TxRespectsPeer == sAlloc <= TxAlloc /\ PSub(sNext, sBase) <= PW
NoPlaceholderBetweenHonest == \A s \in Slots : s \in entryFlag => entry[s].uid # 0
(* the receiver never charges more than the sender still accounts for: it releases a packet when it delivers or skips it, the
   sender only when the acknowledgement arrives - the reason why "no packet is ever discarded for lack of receive memory"
   between honest endpoints (the receiver half of C06; MonBuffer checks the same on the code) *)
RxWithinTx == rAlloc <= sAlloc

(* C20: send_buffer_size() = sizes of the packets queued or in the window *)
RECURSIVE SumNf(_)
SumNf(S) == IF S = {} THEN 0 ELSE LET u == CHOOSE x \in S : TRUE IN submitted[u].nf + SumNf(S \ {u})
BufferSizeExact == sTotal = SumNf({sq[i].uid : i \in 1..Len(sq)}) + SumNf({sWin[p].uid : p \in {x \in DOMAIN sWin : ~sWin[x].disc}})

(* structural invariants of the implementation *)
WindowsConsistent ==
    /\ DOMAIN sWin = {PAdd(sBase, i) : i \in 0..(PSub(sNext, sBase) - 1)}
    /\ FSub(fNext, fWinBase) <= FW
    /\ DOMAIN fLog = {FAdd(fLogBase, i) : i \in 0..(FSub(fNext, fLogBase) - 1)}
    /\ PSub(rEnd, rBase) <= PW
    /\ dataFlag \subseteq entryFlag

TypeOK ==
    /\ sBase \in 0..(PMod - 1) /\ sNext \in 0..(PMod - 1) /\ rBase \in 0..(PMod - 1) /\ rEnd \in 0..(PMod - 1)
    /\ fNext \in 0..(FMod - 1) /\ fWinBase \in 0..(FMod - 1) /\ fLogBase \in 0..(FMod - 1) /\ rfBase \in 0..(FMod - 1)
    /\ sAlloc \in Nat /\ rAlloc \in Nat /\ sTotal \in Nat

(* C02 / C11 (liveness), checked under FairSpec once the fault budget is spent *)
Quiescent == /\ sq = <<>> /\ pendq = <<>> /\ resDue = <<>> /\ resNew = <<>> /\ sTotal = 0
AllReliableDelivered == \A u \in Uids : submitted[u].mode = "R" => u \in DeliveredSet
EventuallyQuiet == <>[](Len(submitted) = MaxSend => (Quiescent /\ AllReliableDelivered))

Fairness ==
    /\ WF_vars(Timeout) /\ WF_vars(\E n \in Nonces : FlushS(n)) /\ WF_vars(FlushR) /\ WF_vars(Receive)
    /\ WF_vars(\E f \in BagToSet(netD) : DeliverD(f)) /\ WF_vars(\E f \in BagToSet(netA) : DeliverA(f))
FairSpec == Spec /\ Fairness
====================================================================================
