----------------------------------- MODULE RecvGen --------------------------------
(* Receiver-focused behaviours of DataPlane.tla: an honest sender has put a whole window of
   packets on the wire (the script: channel and reliability of each packet, hence its parent
   leads); the network hands the receiver any of those datagrams at any time, any number of
   times, in any order; the application calls receive() whenever it likes.  Every step of such a
   behaviour is a step of the receiver half of DataPlane (HandleData / Receive), so the delivery
   invariants are checked on exactly the code-shaped receiver; TLC prints the behaviours with the
   expected receiver projection, and `uvh hc-model` replays them into the real PacketReceiver. *)
EXTENDS DataPlane, Json

CONSTANT Depth
VARIABLES hist, script

RelP(x) == IF x = None THEN -1 ELSE PSub(x, PBase0)
RelF(x) == IF x = None THEN -1 ELSE FSub(x, FBase0)

N == MaxSend
Scripts == [1..N -> [ch : Chans, mode : Modes]]
LastR(s, i, c) == LET S == {j \in 1..(i - 1) : s[j].mode = "R" /\ (c = -1 \/ s[j].ch = c)} IN IF S = {} THEN 0 ELSE i - (CHOOSE m \in S : \A x \in S : x <= m)

(* the datagram frame for packet i of the script, carried by a frame with the next acceptable frame id *)
Frame(i) == [t |-> "D", fid |-> rfBase, nonce |-> FALSE, pid |-> PAdd(PBase0, i - 1), ch |-> script[i].ch,
             wpl |-> LastR(script, i, -1), cpl |-> LastR(script, i, script[i].ch), frag |-> 0, last |-> 0, uid |-> i]

Proj == [rfBase |-> RelF(rfBase), ackq |-> Len(ackq), rBase |-> RelP(rBase), rEnd |-> RelP(rEnd), rAlloc |-> rAlloc, delivered |-> delivered]

GenInit ==
    /\ script \in Scripts
    /\ InitWith([i \in 1..N |-> [ch |-> script[i].ch, mode |-> script[i].mode, nf |-> 1]])
    /\ hist = <<>>

FrameOut(f) == [pid |-> RelP(f.pid), ch |-> f.ch, wpl |-> f.wpl, cpl |-> f.cpl, uid |-> f.uid]

GenNext ==
    /\ UNCHANGED script
    /\ \/ \E i \in 1..N :
            /\ PSub(PAdd(PBase0, i - 1), rBase) < PW \/ PSub(rBase, PAdd(PBase0, i - 1)) <= PW      \* in the window, or an old duplicate
            /\ HandleData(Frame(i))
            /\ UNCHANGED <<submitted, delivered, sender, netD, netA, faults>>
            /\ hist' = Append(hist, [op |-> "rdeliver", f |-> FrameOut(Frame(i)), want |-> Proj'])
       \/ /\ Receive
          /\ hist' = Append(hist, [op |-> "receive", want |-> Proj'])

GenSpec == GenInit /\ [][GenNext]_<<vars, hist, script>>

Emit == Len(hist) = Depth => PrintT(<<"SCHED", ToJson([ops |-> hist, kind |-> "recv", script |-> script,
            cfg |-> [PW |-> PW, FW |-> FW, PMod |-> PMod, FMod |-> FMod, PBase0 |-> PBase0, FBase0 |-> FBase0, TxAlloc |-> TxAlloc, RxAlloc |-> RxAlloc, Keepalive |-> FALSE]])>>)
====================================================================================
