----------------------------------- MODULE RecvGen --------------------------------
(* Receiver-focused behaviours of DataPlane.tla: an honest sender has put a whole window of
   packets on the wire (the script: channel and reliability of each packet, hence its parent
   leads); the network hands the receiver any of those datagrams at any time, any number of
   times, in any order; the application calls receive() whenever it likes.  Every step of such a
   behaviour is a step of the receiver half of DataPlane (HandleData / Receive), so the delivery
   invariants are checked on exactly the code-shaped receiver; TLC prints the behaviours with the
   expected receiver projection, and `uvh hc-model` replays them into the real PacketReceiver. *)
EXTENDS DataPlane, Json

CONSTANT Depth
VARIABLES hist, script, handed, legal      \* handed / legal: which sync frames of the honest sender can exist (see MC_RecvSync.tla)

RelP(x) == IF x = None THEN -1 ELSE PSub(x, PBase0)
RelF(x) == IF x = None THEN -1 ELSE FSub(x, FBase0)

N == MaxSend
Scripts == [1..N -> [ch : Chans, mode : Modes]]
LastR(s, i, c) == LET S == {j \in 1..(i - 1) : s[j].mode = "R" /\ (c = -1 \/ s[j].ch = c)} IN IF S = {} THEN 0 ELSE i - (CHOOSE m \in S : \A x \in S : x <= m)

(* the datagram frame for packet i of the script, carried by a frame with the next acceptable frame id *)
Frame(i) == [t |-> "D", fid |-> rfBase, nonce |-> FALSE, pid |-> PAdd(PBase0, i - 1), ch |-> script[i].ch,
             wpl |-> LastR(script, i, -1), cpl |-> LastR(script, i, script[i].ch), frag |-> 0, last |-> 0, uid |-> i]

Proj == [rfBase |-> RelF(rfBase), ackq |-> Len(ackq), rBase |-> RelP(rBase), rEnd |-> RelP(rEnd), rAlloc |-> rAlloc, delivered |-> delivered]

GenInit ==
    /\ script \in Scripts
    /\ InitWith([i \in 1..N |-> [ch |-> script[i].ch, mode |-> script[i].mode, nf |-> 1]])
    /\ hist = <<>> /\ handed = {} /\ legal = {}

(* sync(k) offers the id after packet k: possible once every Reliable packet up to k has been handed over and nothing beyond k has *)
PossibleNow(h, k) == /\ \A i \in 1..k : script[i].mode = "R" => i \in h
                     /\ \A i \in (k + 1)..N : i \notin h
                     /\ \E i \in 1..k : script[i].mode # "R" \/ i \in h

FrameOut(f) == [pid |-> RelP(f.pid), ch |-> f.ch, wpl |-> f.wpl, cpl |-> f.cpl, uid |-> f.uid]

GenNext ==
    /\ UNCHANGED script
    /\ \/ \E i \in 1..N :
            /\ PSub(PAdd(PBase0, i - 1), rBase) < PW \/ PSub(rBase, PAdd(PBase0, i - 1)) <= PW      \* in the window, or an old duplicate
            /\ HandleData(Frame(i))
            /\ UNCHANGED <<submitted, delivered, sender, netD, netA, faults>>
            /\ hist' = Append(hist, [op |-> "rdeliver", f |-> FrameOut(Frame(i)), want |-> Proj'])
            /\ handed' = handed \cup {i}
            /\ legal' = legal \cup {k \in 1..N : PossibleNow(handed \cup {i}, k)}
       \/ /\ Receive
          /\ hist' = Append(hist, [op |-> "receive", want |-> Proj'])
          /\ UNCHANGED <<handed, legal>>
       \/ \E k \in legal :        \* a sync frame of the sender, at any later time (stale, duplicated, after newer data)
            /\ HandleSync([t |-> "S", nfid |-> None, npid |-> PAdd(PBase0, k)])
            /\ UNCHANGED <<submitted, delivered, sender, netD, netA, faults, handed, legal>>
            /\ hist' = Append(hist, [op |-> "rsync", npid |-> k, want |-> Proj'])

GenSpec == GenInit /\ [][GenNext]_<<vars, hist, script, handed, legal>>

Emit == Len(hist) = Depth => PrintT(<<"SCHED", ToJson([ops |-> hist, kind |-> "recv", script |-> script,
            cfg |-> [PW |-> PW, FW |-> FW, PMod |-> PMod, FMod |-> FMod, PBase0 |-> PBase0, FBase0 |-> FBase0, TxAlloc |-> TxAlloc, RxAlloc |-> RxAlloc, Keepalive |-> FALSE]])>>)
====================================================================================
