SPECIFICATION Spec
INVARIANT C13
INVARIANT Report
POSTCONDITION Accepted
CHECK_DEADLOCK FALSE
ALIAS Brief
