SPECIFICATION Spec
INVARIANT C01
POSTCONDITION Accepted
CHECK_DEADLOCK FALSE
ALIAS Brief
