---------------------------------- MODULE Feedback ----------------------------------
(* Implementation-shaped model of the sender's loss detection path: the reorder buffer that turns
   acknowledged frame ids into an in-order stream of "acked" / "lost" verdicts (reorder_buffer.rs),
   and the loss interval history those verdicts feed (loss_rate.rs, RFC 5348 section 5).

   Reorder buffer.  State: the next id to be judged (base) and at most two ids beyond it that have
   been acknowledged out of order (held, nearest first).  Put(id) - an acknowledgement for a frame
   id in [base, base + Span) that has not been put before; Advance(nb) - the transfer window moved
   to nb, every id below it is judged now.  A frame is declared lost as soon as three frames sent
   after it have been acknowledged (the NDUPACK rule of TCP / TFRC), or when the window passes it.
   Both operators return the new state and the verdicts in the order the code calls back.

   Loss intervals.  Newest first, at most nine; every ack lengthens the newest interval, a lost
   frame starts a new interval unless it was sent before the newest interval's end time (send time
   of the frame that opened it plus one RTT: losses within one round trip are one loss event).
   The loss event rate is the weighted average of RFC 5348 5.4, kept here as an exact fraction
   (weights times ten). *)
EXTENDS Integers, Sequences, FiniteSets

CONSTANTS IdMod, Span      \* frame ids are taken modulo IdMod (2^32 in the code); Span = max_span

Add(a, b) == (a + b) % IdMod
Sub(a, b) == (a + IdMod - b) % IdMod          \* wrapping_sub

\* ------------------------------------------------------------------------------ reorder buffer
RbNew(b) == [base |-> b, held |-> <<>>]
CanPut(s, id) == Sub(id, s.base) < Span
CanAdvance(s, nb) == Sub(nb, s.base) >= 1 /\ Sub(nb, s.base) <= Span

(* the held ids that have become consecutive with the base are released *)
RECURSIVE Drain(_, _)
Drain(s, out) == IF s.held # <<>> /\ Head(s.held) = s.base
                 THEN Drain([base |-> Add(s.base, 1), held |-> Tail(s.held)], Append(out, <<s.base, TRUE>>))
                 ELSE <<s, out>>

RECURSIVE Nacks(_, _, _)
Nacks(from, to, out) == IF from = to THEN out ELSE Nacks(Add(from, 1), to, Append(out, <<from, FALSE>>))

(* insert id into held, keeping it ordered by distance from the base *)
Insert(s, id) ==
    LET d(x) == Sub(x, s.base) IN
    IF s.held = <<>> THEN <<id>>
    ELSE IF Len(s.held) = 1 THEN (IF d(id) < d(s.held[1]) THEN <<id, s.held[1]>> ELSE <<s.held[1], id>>)
    ELSE IF d(id) < d(s.held[1]) THEN <<id, s.held[1], s.held[2]>>
    ELSE IF d(id) < d(s.held[2]) THEN <<s.held[1], id, s.held[2]>>
    ELSE <<s.held[1], s.held[2], id>>

Put(s, id) ==
    IF id = s.base THEN Drain([s EXCEPT !.base = Add(@, 1)], <<<<id, TRUE>>>>)
    ELSE IF Len(s.held) < 2 THEN <<[s EXCEPT !.held = Insert(s, id)], <<>>>>
    ELSE LET all == Insert(s, id)            \* three ids beyond the base: the nearest one is released
             m == all[1]
             out == Append(Nacks(s.base, m, <<>>), <<m, TRUE>>)
         IN Drain([base |-> Add(m, 1), held |-> Tail(all)], out)

RECURSIVE AdvanceHeld(_, _, _)
AdvanceHeld(s, nb0, out) ==      \* nb0: distance of the new base from the base at the time of the call is tracked by the caller
    IF s.held # <<>> /\ Sub(Head(s.held), s.base) < Sub(nb0, s.base)
    THEN LET h == Head(s.held) IN
         AdvanceHeld([base |-> Add(h, 1), held |-> Tail(s.held)], nb0, Append(Nacks(s.base, h, out), <<h, TRUE>>))
    ELSE <<s, out>>

Advance(s, nb) ==
    LET r == AdvanceHeld(s, nb, <<>>)
        s1 == r[1]
        out1 == Nacks(s1.base, nb, r[2])
    IN Drain([s1 EXCEPT !.base = nb], out1)

\* ------------------------------------------------------------------------------ loss intervals
Weights10 == <<10, 10, 10, 10, 8, 6, 4, 2>>
SatLen == 2000000000                         \* lengths saturate (u32 in the code)
Inc(n) == IF n >= SatLen THEN SatLen ELSE n + 1

LiNew == <<>>
PushAck(q) == IF q = <<>> THEN q ELSE [q EXCEPT ![1] = [@ EXCEPT !.len = Inc(@)]]
PushNack(q, sendTime, rtt) ==
    IF q # <<>> /\ sendTime < q[1].end THEN [q EXCEPT ![1] = [@ EXCEPT !.len = Inc(@)]]
    ELSE LET q2 == <<[end |-> sendTime + rtt, len |-> 1]>> \o q IN
         IF Len(q2) > 9 THEN SubSeq(q2, 1, 9) ELSE q2
(* reset(p): everything but the newest interval is forgotten; its length becomes round(1 / p) (an oracle input) *)
ResetTo(q, len) == <<[q[1] EXCEPT !.len = len]>>

RECURSIVE SumW(_, _, _, _)
SumW(q, i, hi, shift) == IF i > hi THEN 0 ELSE q[i].len * Weights10[i - shift] + SumW(q, i + 1, hi, shift)
RECURSIVE SumWeights(_, _)
SumWeights(i, hi) == IF i > hi THEN 0 ELSE Weights10[i] + SumWeights(i + 1, hi)
Max(a, b) == IF a > b THEN a ELSE b

(* loss event rate as a fraction <<numerator, denominator>>; <<0, 1>> when there is no history *)
LossRate(q) ==
    IF q = <<>> THEN <<0, 1>>
    ELSE IF Len(q) = 1 THEN <<10, q[1].len * 10>>
    ELSE LET n == Len(q) IN <<SumWeights(1, n - 1), Max(SumW(q, 1, n - 1, 0), SumW(q, 2, n, 1))>>
=====================================================================================
