---------------------------------- MODULE MonTwin --------------------------------
(* Property monitor for C15.  A run consists of two executions of the same seeded scenario on
   fresh connections; execution 1 additionally hands the sender replayed genuine ack frames,
   genuine groups with an inverted nonce, and groups for frames it never sent or has forgotten.
   After every round the sender's observables are logged; execution 1 must reproduce execution 0
   exactly: the same frames (count, bytes, hash of contents), RTT estimate, send rate, pending
   flag, send buffer size and deliveries at the receiver. *)
EXTENDS TraceIO

VARIABLES obs0, ninj, ncmp, differ, bad
vars == <<l, obs0, ninj, ncmp, differ, bad>>
Flag(p, why) == IF Cardinality(bad) < 200 THEN {<<p, why, l>>} ELSE {}
Fields(r) == <<r.frames, r.bytes, r.hash, r.rtt_us, r.rate, r.pending, r.bufsize, r.delivered>>

Init == l = 1 /\ obs0 = <<>> /\ ninj = 0 /\ ncmp = 0 /\ differ = FALSE /\ bad = {}

Reset == /\ IsEvent("Reset") /\ obs0' = <<>> /\ differ' = FALSE /\ UNCHANGED <<ninj, ncmp, bad>>

Obs ==
    /\ IsEvent("Obs")
    /\ IF Cur.twin = 0
       THEN /\ Cur.k = Len(obs0) /\ obs0' = Append(obs0, Fields(Cur)) /\ UNCHANGED <<ncmp, differ, bad>>
       ELSE LET same == Cur.k < Len(obs0) /\ obs0[Cur.k + 1] = Fields(Cur)
                what == IF Cur.k >= Len(obs0) THEN "extra-round"
                        ELSE IF obs0[Cur.k + 1][4] # Cur.rtt_us THEN "rtt-estimate-differs-after-forged-or-replayed-ack"
                        ELSE IF obs0[Cur.k + 1][5] # Cur.rate THEN "send-rate-differs-after-forged-or-replayed-ack"
                        ELSE IF obs0[Cur.k + 1][1] # Cur.frames \/ obs0[Cur.k + 1][2] # Cur.bytes \/ obs0[Cur.k + 1][3] # Cur.hash THEN "transmissions-differ-after-forged-or-replayed-ack"
                        ELSE "sender-state-differs-after-forged-or-replayed-ack"
            IN /\ bad' = bad \cup (IF ~same /\ ~differ THEN Flag("C15", what) ELSE {})
               /\ differ' = (differ \/ ~same)
               /\ ncmp' = ncmp + 1
               /\ UNCHANGED obs0
    /\ UNCHANGED ninj

Inject == /\ IsEvent("Inject") /\ ninj' = ninj + 1 /\ UNCHANGED <<obs0, ncmp, differ, bad>>
(* the execution ended because a call into the library panicked or hung (driver line, ep = "twin"): if that happens
   to the second execution in a round the first one completed, the extra acknowledgement frames had an effect *)
Died == /\ IsEvent("Ret") /\ Cur.ep = "twin"
        /\ bad' = bad \cup (IF Cur.twin = 1 /\ ~differ /\ Cur.k < Len(obs0) THEN Flag("C15", "sender-died-after-forged-or-replayed-ack") ELSE {})
        /\ differ' = (differ \/ Cur.twin = 1)
        /\ UNCHANGED <<obs0, ninj, ncmp>>
Skip == /\ (IsEvent("End") \/ (IsEvent("Ret") /\ Cur.ep # "twin")) /\ UNCHANGED <<obs0, ninj, ncmp, differ, bad>>

Next == Reset \/ Obs \/ Inject \/ Died \/ Skip
Spec == Init /\ [][Next]_vars
AtEnd == l = NRec + 1
Brief == IF AtEnd THEN [l |-> l, bad |-> bad, ninj |-> ninj, ncmp |-> ncmp] ELSE [l |-> l]
C15 == AtEnd => NoneFor(bad, "C15")
Report == AtEnd => PrintT(<<"TWIN-REPORT", ninj, ncmp>>)
====================================================================================
