----------------------------- MODULE MC_DataPlaneFlush -----------------------------
(* C09 (first sentence) on the data-plane model.  disconnect() in flush mode lets the connection run on
   until HalfConnection::is_send_pending() is false - nothing in the send queue, nothing in the pending
   queue, nothing in the resend queue (entries of acknowledged fragments count until they are purged) -
   and only then transmits DISCONNECT; the peer drains what is deliverable and signals Disconnect.
   Here: Disconnect marks how many packets had been submitted; SendDisc is enabled when the model's
   sender is not pending; at that moment every Reliable packet submitted before the call must have been
   received completely by the receiver (delivered already, or sitting complete in its window).
   `HeadOnly` switches to the broken flush check of the seeded change C09_flush_checks_heap_top
   (only the top of the resend heap is examined): the invariant must then fail. *)
EXTENDS DataPlane

CONSTANT HeadOnly

VARIABLES flushAt, discOk
fvars == <<vars, flushAt, discOk>>      \* flushAt: -1 before disconnect(); discOk: "none" / "ok" / "lost" once DISCONNECT went out

StateConstraint == nframes <= MaxFrames /\ nsyncs <= MaxSyncs

ResendPending ==
    IF HeadOnly
    THEN LET top == IF resDue # <<>> THEN <<Head(resDue)>> ELSE IF resNew # <<>> THEN <<Head(resNew)>> ELSE <<>> IN
         top # <<>> /\ ~FragAcked(sWin, top[1])
    ELSE resDue # <<>> \/ resNew # <<>>
Pending == sq # <<>> \/ pendq # <<>> \/ ResendPending

ReceivedComplete(u) == u \in DeliveredSet \/ \E s \in dataFlag : entry[s].uid = u
AllFlushed == \A u \in 1..flushAt : submitted[u].mode = "R" => ReceivedComplete(u)

FInit == Init /\ flushAt = -1 /\ discOk = "none"
Disconnect == flushAt = -1 /\ flushAt' = Len(submitted) /\ UNCHANGED <<vars, discOk>>
SendDisc == /\ flushAt >= 0 /\ discOk = "none" /\ ~Pending
            /\ discOk' = IF AllFlushed THEN "ok" ELSE "lost"
            /\ UNCHANGED <<vars, flushAt>>
FNext == \/ (discOk = "none" /\ Next /\ UNCHANGED <<flushAt, discOk>>)      \* once DISCONNECT is out the half connection is no longer driven
         \/ Disconnect
         \/ SendDisc
FSpec == FInit /\ [][FNext]_fvars

FlushedBeforeDisconnect == discOk # "lost"
=====================================================================================
