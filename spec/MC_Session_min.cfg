SPECIFICATION Spec
CONSTANTS
    Resend = 2
    Retries = 1
    ReAckAnyNonce = FALSE
    Linger = 2
    Clients = {"c0"}
    MaxActive = 1
    MaxTotal = 1
    TC = 3
    TS = 3
    Tmax = 2
    NetCap = 2
    Faults = 1
    Forgeries = 0
    DataFrames = 0
    Herr = TRUE
INVARIANT EventStreamsWellFormed
INVARIANT AgreeWhenBothActive
INVARIANT LimitsAgree
INVARIANT ServerConnectionsAreAcknowledged
INVARIANT ClientConnectionsEchoItsNonce
INVARIANT Limits
INVARIANT NoViolation
INVARIANT NoAmplification
CHECK_DEADLOCK FALSE
