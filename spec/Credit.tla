----------------------------------- MODULE Credit -----------------------------------
(* The send credit of one half connection (HalfConnection::fill_flush_alloc and the budget checks of the
   emitters), reduced to what decides C13 at one instant: `alloc` bytes of credit, capped at
   cap = rate x RTT when it is refilled; a frame may be started while the credit is not negative and
   is charged in full (so the credit can go negative by less than one frame).
   Client::step / Server::step call flush() first, then handle input, then refill (step() of the half
   connection); the application then submits packets and calls flush() again.  All of that happens at
   one instant as far as the rate bound is concerned.

   InstantBound - what C13 allows at one instant: cap + one frame - is what the code's order of
   operations (flush, refill, flush) violates: the first flush spends credit left from earlier, the
   refill then grants min(cap, what is left + rate x time since the previous step) as if nothing had
   just been sent, and the second flush spends that too.  This is known finding F22; TLC produces the
   shortest witness.  With the refill moved before the first flush (RefillFirst = TRUE) the bound
   holds.  The C13 check requires exactly this pair of outcomes, so the finding stays pinned to its
   mechanism. *)
EXTENDS Integers, TLC

CONSTANTS Cap, FrameMax, Accrued, RefillFirst    \* cap = rate x RTT; largest frame; set of possible rate x dt values

VARIABLES alloc, sent, phase       \* sent: bytes put on the wire at this instant; phase: where Client::step + the application are
vars == <<alloc, sent, phase>>

Min(a, b) == IF a < b THEN a ELSE b

Init == alloc \in 0..Cap /\ sent = 0 /\ phase = "start"

(* one flush: any number of frames, each started on non-negative credit *)
Frame == /\ phase \in {"flush1", "flush2"} /\ alloc >= 0
         /\ \E len \in 1..FrameMax : alloc' = alloc - len /\ sent' = sent + len
         /\ UNCHANGED phase
Refill == \E a \in Accrued : alloc' = Min(alloc + a, Cap)

Advance ==
    \/ phase = "start" /\ (IF RefillFirst THEN Refill /\ phase' = "flush1" ELSE alloc' = alloc /\ phase' = "flush1") /\ UNCHANGED sent
    \/ phase = "flush1" /\ (IF RefillFirst THEN alloc' = alloc ELSE Refill) /\ phase' = "flush2" /\ UNCHANGED sent
    \/ phase = "flush2" /\ phase' = "done" /\ UNCHANGED <<alloc, sent>>

Next == Frame \/ Advance
Spec == Init /\ [][Next]_vars

InstantBound == sent <= Cap + FrameMax
=====================================================================================
