----------------------------------- MODULE Credit -----------------------------------
(* The send credit of one half connection over time (HalfConnection::fill_flush_alloc, step(), flush() and the
   budget checks of the emitters), reduced to what decides C13: `alloc` bytes of credit, refilled with the bytes
   that accrued at the send rate since a reference time and capped at cap = rate x RTT; a frame may be started
   while the credit is not negative and is charged in full (so the credit can go negative by less than a frame).

   Time is counted in ticks.  The rate is the rational RateN / RateD bytes per tick, so that refills have
   fractional parts (2500 B/s at one step per millisecond is 5/2).  To stay within integers the reference time is
   kept in units of 1/RateN tick ("u"): one byte accrues every RateD u.

   Client::step / Server::step call flush() first, then handle input, then step() of the half connection; the
   application then submits packets and calls flush() again - all at one instant as far as the rate bound is
   concerned - and any number of flushes may follow before time moves on.

   Three variants of the mechanism, selected by the constant Variant:

     "repaired"   what the code does now: flush() refills too, whole bytes are credited (floor) and the reference
                  time advances by exactly the time those bytes took to accrue (it restarts when the credit is
                  full: a full bucket accrues nothing, not even a fraction of a byte);
     "steponly"   the code before fix 62262af: only step() refills.  Credit left over from the previous refill is
                  spent by the flush that precedes step(), then step() grants up to another bucket (finding F22);
     "carryfull"  a seeded change (batch 6, C13): when the bucket is full the reference time advances only by the time
                  the bytes that still fitted took to accrue, so idle time is saved up and spent later;
     "rounding"   the code before fix 8b67270: a refill credits round(rate x elapsed) and restarts the elapsed
                  time from zero, so a regular cadence keeps the same rounding error every time (finding F25).

   RateBound is C13 on this model: over every interval the bytes sent are at most rate x interval + cap + one
   frame, evaluated as the running bucket of BucketLemma.tla / MonRate.tla.  TLC must find it violated for the
   two old variants and satisfied for the repaired one; the C13 check requires exactly these outcomes, so both
   findings stay pinned to their mechanisms and the repaired mechanism is model-checked. *)
EXTENDS Integers, TLC

CONSTANTS Cap, FrameMax, RateN, RateD, MaxT, Variant

VARIABLES alloc,    \* the credit (flush_alloc)
          ref,      \* reference time of the refill, in u (time_last_flushed)
          now,      \* current time in ticks
          level,    \* running bucket of what was put on the wire, in 1/RateD bytes (the monitor's view)
          tEmit     \* time of the latest emission, in u
vars == <<alloc, ref, now, level, tEmit>>

Min(a, b) == IF a < b THEN a ELSE b
Max(a, b) == IF a > b THEN a ELSE b

NowU == now * RateN

Init == alloc \in {0, Cap} /\ ref = 0 /\ now = 0 /\ level = 0 /\ tEmit = 0

(* fill_flush_alloc at the current time: the new credit and the new reference *)
Fill ==
    LET d == NowU - ref                       \* elapsed, in u; one byte per RateD u
        whole == d \div RateD                 \* floor(rate x elapsed)
        rounded == (2 * d + RateD) \div (2 * RateD)   \* round(rate x elapsed), half away from zero
        new == IF Variant = "rounding" THEN rounded ELSE whole
        full == Variant = "repaired" /\ alloc + new >= Cap
        \* "carryfull": a full bucket keeps the elapsed time it could not use (only the bytes that still fitted are paid for)
        fits == IF alloc >= Cap THEN 0 ELSE Min(new, Cap - alloc)
    IN  [alloc |-> Min(alloc + new, Cap),
         ref |-> IF Variant = "carryfull" THEN ref + fits * RateD   \* (a seeded change of batch 6: idle time is saved up)
                 ELSE IF full THEN NowU                         \* full: nothing accrues meanwhile, the elapsed time starts over
                 ELSE IF new = 0 THEN ref                       \* nothing accrued yet: keep accumulating
                 ELSE IF Variant = "rounding" THEN NowU        \* elapsed time restarts from zero
                 ELSE ref + new * RateD]                        \* advance by the time the whole bytes took

Step == /\ alloc' = Fill.alloc /\ ref' = Fill.ref /\ UNCHANGED <<now, level, tEmit>>

(* one frame of a flush (a flush is any number of these at one instant; refilling twice at one instant adds nothing) *)
Frame(len) ==
    LET f == IF Variant = "steponly" THEN [alloc |-> alloc, ref |-> ref] ELSE Fill
    IN  /\ f.alloc >= 0
        /\ alloc' = f.alloc - len /\ ref' = f.ref
        /\ level' = len * RateD + Max(0, level - (NowU - tEmit))
        /\ tEmit' = NowU
        /\ UNCHANGED now

Tick == now < MaxT /\ now' = now + 1 /\ UNCHANGED <<alloc, ref, level, tEmit>>

Next == Step \/ Tick \/ \E len \in 1..FrameMax : Frame(len)
Spec == Init /\ [][Next]_vars

RateBound == level <= (Cap + FrameMax) * RateD
TypeOK == alloc \in -FrameMax..Cap /\ ref <= NowU
=====================================================================================
