--------------------------------- MODULE MonCodec --------------------------------
(* Property monitor for the frame codec (C16), validated by TLC against what the real
   Frame::write / Frame::read produced for seeded random frames, for the boundary vectors
   enumerated from MC_Codec, and for malformed inputs.

   Codec line:  the bytes written for `frame` must equal Encode(frame) followed by the CRC-32 of
                those bytes (Crc.tla), and reading them back must give the same frame.
   Reject line: inputs of the listed kinds must be rejected; arbitrary bytes that do parse must
                re-encode to something that parses to the same frame.
   Parse line:  for a CRC-valid input (malformed and field-mutated encodings enumerated by TLC from
                MC_Codec.tla, and seeded mutations of genuine frames) the outcome of the real
                Frame::read must be exactly Decode(body): the specified frame, or rejection. *)
EXTENDS TraceIO, Codec, Crc

VARIABLES nvec, nrej, bad
vars == <<l, nvec, nrej, bad>>
Flag(p, why) == IF Cardinality(bad) < 200 THEN {<<p, why, l>>} ELSE {}

Init == l = 1 /\ nvec = 0 /\ nrej = 0 /\ bad = {}

MustReject == {"truncated", "extended", "unknown-type", "bad-enum", "bitflip", "short"}

CodecLine ==
    /\ IsEvent("Codec")
    /\ LET want == Encode(Cur.frame)
           got == Cur.bytes
           n == Len(got)
       IN bad' = bad
            \cup (IF n # Len(want) + 4 \/ SubSeq(got, 1, n - 4) # want THEN Flag("C16", "written-bytes-differ-from-the-specified-encoding") ELSE {})
            \cup (IF n >= 4 /\ SubSeq(got, n - 3, n) # CrcBytes(SubSeq(got, 1, n - 4)) THEN Flag("C16", "crc-field-is-not-the-crc-of-the-frame") ELSE {})
            \cup (IF ~Cur.read_some \/ ~Cur.read_same THEN Flag("C16", "write-then-read-does-not-round-trip") ELSE {})
            \cup (IF Cur.frame.t \in {"SYN", "SYNACK", "ACK", "ERR", "DISC", "DISCACK", "SYNC"} /\ n # WireLen(Cur.frame.t)
                  THEN Flag("C16", "fixed-size-frame-has-wrong-length") ELSE {})
    /\ nvec' = nvec + 1 /\ UNCHANGED nrej

RejectLine ==
    /\ IsEvent("Reject")
    /\ bad' = bad
         \cup (IF Cur.kind \in MustReject /\ Cur.parsed THEN Flag("C16", "malformed-input-accepted") ELSE {})
         \cup (IF Cur.parsed /\ ~Cur.reencodes THEN Flag("C16", "parsed-input-does-not-reencode-to-the-same-frame") ELSE {})
    /\ nrej' = nrej + 1 /\ UNCHANGED nvec

ParseLine ==     \* a CRC-valid input: the decoder's outcome must be Decode(body) of Codec.tla - the same frame, or rejection
    /\ IsEvent("Parse")
    /\ LET want == Decode(Cur.body) IN
       bad' = bad
         \cup (IF want = Rejected /\ Cur.parsed THEN Flag("C16", "malformed-input-accepted") ELSE {})
         \cup (IF want # Rejected /\ ~Cur.parsed THEN Flag("C16", "well-formed-frame-rejected") ELSE {})
         \cup (IF want # Rejected /\ Cur.parsed /\ Cur.frame # want THEN Flag("C16", "parsed-frame-differs-from-the-specified-decoding") ELSE {})
    /\ nrej' = nrej + 1 /\ UNCHANGED nvec

SweepLine ==     \* exhaustive 1..max_weight bit error patterns on a short frame: none may be accepted
    /\ IsEvent("FlipSweep")
    /\ bad' = bad \cup (IF Cur.accepted # 0 THEN Flag("C16", "bit-error-pattern-of-weight-at-most-4-accepted") ELSE {})
    /\ nrej' = nrej + 1 /\ UNCHANGED nvec

RetLine ==
    /\ IsEvent("Ret")
    /\ bad' = bad \cup (IF Cur.outcome # "ok" THEN Flag("C16", "codec-call-panicked-or-hung") ELSE {})
    /\ UNCHANGED <<nvec, nrej>>

Skip == /\ IsOneOf({"Reset", "End"}) /\ UNCHANGED <<nvec, nrej, bad>>

Next == CodecLine \/ RejectLine \/ ParseLine \/ SweepLine \/ RetLine \/ Skip
Spec == Init /\ [][Next]_vars

AtEnd == l = NRec + 1
Brief == IF AtEnd THEN [l |-> l, bad |-> bad, nvec |-> nvec, nrej |-> nrej] ELSE [l |-> l]
C16 == AtEnd => NoneFor(bad, "C16")
Report == AtEnd => PrintT(<<"CODEC-REPORT", nvec, nrej>>)
====================================================================================
