------------------------------- MODULE MC_SessionTimed ------------------------------
(* Session.tla over *whole* timer horizons.  MC_Session lets the clock tick by one and is therefore
   exhaustive only for two or three ticks - shorter than any time-out.  Here time is event driven:
   `Advance` moves the clock straight to the next instant at which some timer of some endpoint is
   due (all timer values are sums of the constants, so nothing between two such instants can change
   what a step does except the arrival of frames, which may still happen in any order before the
   clock moves), and only after every live endpoint has stepped at the current instant - the
   premise "both applications keep calling step()" of C09 / C10.  That makes complete handshake
   and disconnect retry schedules, active time-outs and lingers reachable exhaustively, and lets the
   time budgets be stated as invariants:

   C09  from the first transmission of DISCONNECT an endpoint is Closing for less than
        (Retries + 1) x Resend ("the 22 s retry budget"), whatever is lost; it gives up with
        Error(Timeout) exactly when that budget is used up, not before
   C10  a handshake attempt ends with Error(Timeout) after (Retries + 1) x Resend and not before; a
        pending server entry is forgotten after the same budget; an established connection that
        has heard nothing for T is reported within one step; never earlier (NoViolation)
   C08 / C17  an entry lingering in Closed is gone after Linger (capacity comes back)               *)
EXTENDS MC_Session

VARIABLES stepped,      \* endpoints that have stepped at the current instant ("s" = the server)
          cSince,       \* client: instant at which its current Pending / Closing / Closed phase began
          sSince,       \* server entry: the same
          tviol         \* timing violations observed in steps
tvars == <<vars, stepped, cSince, sSince, tviol>>

Budget == (Retries + 1) * Resend
WrongBudget == (Retries + 2) * Resend      \* non-vacuity configuration: a budget the schedule does not have

TInit == Init /\ stepped = {} /\ cSince = [c \in Clients |-> 0] /\ sSince = [c \in Clients |-> 0] /\ tviol = {}

Has(evs, e) == \E i \in 1..Len(evs) : evs[i] = e

TClientStep(c, fl) ==
    /\ ClientStepA(c, fl)
    /\ stepped' = stepped \cup {c}
    /\ cSince' = [cSince EXCEPT ![c] = IF cl'[c].st # cl[c].st THEN now ELSE @]
    /\ LET r == ClientStep(cl[c], inC[c], now, fl)
           to == Has(r.ev, "ErrorTimeout")
       IN tviol' = tviol
            \cup (IF to /\ cl[c].st = "Pending" /\ now < cSince[c] + Budget THEN {"C10-handshake-timeout-before-budget"} ELSE {})
            \cup (IF to /\ cl[c].st = "Closing" /\ now < cSince[c] + Budget THEN {"C09-closing-timeout-before-budget"} ELSE {})
            \* a step in which the client was already Closing when it began cannot both send DISCONNECT and have heard the answer
            \cup (IF r.c.st = "Closing" /\ cl[c].st = "Closing" /\ now >= cSince[c] + Budget THEN {"C09-closing-beyond-budget"} ELSE {})
            \cup (IF r.c.st = "Pending" /\ now >= cSince[c] + Budget THEN {"C10-handshake-beyond-budget"} ELSE {})
            \cup (IF r.c.st = "Active" /\ cl[c].st = "Active" /\ now >= cl[c].deadline /\ ~HasData(inC[c]) THEN {"C10-silent-connection-not-reported"} ELSE {})
    /\ UNCHANGED sSince

TServerStep(fl) ==
    /\ ServerStepA(fl)
    /\ stepped' = stepped \cup {"s"}
    /\ sSince' = [a \in Clients |-> IF sv'[a].st # sv[a].st THEN now ELSE sSince[a]]
    /\ LET r == ServerStep(sv, Stamp(inS, fresh), now, Cfg, fl)
           heardNow(a) == \E i \in 1..Len(inS) : inS[i][1] = a /\ inS[i][2].ty = "DATA"
       IN tviol' = tviol
            \cup UNION {(IF Has(r.ev, <<a, "ErrorTimeout">>) /\ sv[a].st = "Closing" /\ now < sSince[a] + Budget THEN {"C09-server-closing-timeout-before-budget"} ELSE {})
                        \cup (IF r.s[a].st = "Closing" /\ sv[a].st = "Closing" /\ now >= sSince[a] + Budget THEN {"C09-server-closing-beyond-budget"} ELSE {})
                        \cup (IF r.s[a].st = "Pending" /\ sv[a].st = "Pending" /\ now >= sSince[a] + Budget THEN {"C10-server-handshake-beyond-budget"} ELSE {})
                        \cup (IF Has(r.ev, <<a, "ErrorTimeout">>) /\ sv[a].st = "Pending" /\ now < sSince[a] + Budget THEN {"C10-server-handshake-timeout-before-budget"} ELSE {})
                        \cup (IF r.s[a].st = "Closed" /\ sv[a].st = "Closed" /\ now >= sSince[a] + Linger THEN {"C17-closed-entry-beyond-linger"} ELSE {})
                        \cup (IF r.s[a].st = "Active" /\ sv[a].st = "Active" /\ now >= sv[a].deadline /\ ~heardNow(a) THEN {"C10-server-silent-connection-not-reported"} ELSE {})
                        : a \in Clients}
    /\ UNCHANGED cSince

(* the instants at which a timer is due *)
CDue(c) == CASE cl[c].st \in {"Pending", "Closing"} -> {cl[c].at}
             [] cl[c].st \in {"Active", "Closed"} -> {cl[c].deadline}
             [] OTHER -> {}
SDue(a) == CASE sv[a].st \in {"Pending", "Closing"} -> {sv[a].at}
             [] sv[a].st \in {"Active", "Closed"} -> {sv[a].deadline}
             [] OTHER -> {}
Dues == {t \in UNION ({CDue(c) : c \in Clients} \cup {SDue(a) : a \in Clients}) : t > now}
Live == {c \in Clients : cl[c].st \notin {"Idle", "Fin"}} \cup {"s"}

Advance ==
    /\ Dues # {} /\ inS = <<>> /\ (\A c \in Clients : inC[c] = <<>>)
    /\ Live \subseteq stepped
    /\ LET t == CHOOSE x \in Dues : \A y \in Dues : x <= y IN t <= Tmax /\ now' = t
    /\ stepped' = {}
    /\ UNCHANGED <<cl, sv, net, inC, inS, evC, evS, cAcked, heardC, heardS, fresh, faults, forgeries, ndata, bytesIn, bytesOut, verified, viol, cSince, sSince, tviol>>

(* an application call or a network event: the endpoints concerned have to step again before time moves on *)
Env(A, who) == A /\ stepped' = stepped \ who /\ UNCHANGED <<cSince, sSince, tviol>>

TConnect(c) == /\ Connect(c) /\ stepped' = stepped \ {c} /\ cSince' = [cSince EXCEPT ![c] = now] /\ UNCHANGED <<sSince, tviol>>

TNext ==
    \/ \E c \in Clients : TConnect(c) \/ Env(ClientData(c), {}) \/ Env(ServerData(c), {}) \/ Env(DropS(c), {"s"})
    \/ \E c \in Clients : \E fl \in (IF cl[c].disc = "flush" THEN BOOLEAN ELSE {TRUE}) : TClientStep(c, fl)
    \/ \E fl \in SUBSET {c \in Clients : sv[c].disc = "flush"} : TServerStep(fl)
    \/ \E p \in BagToSet(net) : Env(Deliver(p), {p.dst}) \/ Env(Lose(p), {}) \/ Env(Dup(p), {})
    \/ \E c \in Clients, ts \in BOOLEAN, f \in ForgedFrames : Env(Forge(c, ts, f), {})
    \/ \E c \in Clients, n \in BOOLEAN : Env(AppC(c, n), {c}) \/ Env(AppS(c, n), {"s"})
    \/ Advance

TSpec == TInit /\ [][TNext]_tvars

(* the timing invariants read only the variables below; the event histories, byte counters and "last heard" instants of
   MC_Session (which multiply the state space without influencing any guard) are hidden in the configurations that check
   only these invariants *)
TimedView == <<cl, sv, net, inC, inS, now, fresh, faults, forgeries, ndata, stepped, cSince, sSince, tviol>>

NoTimingViolation == tviol = {}
(* the budgets as state invariants: once everybody has stepped at an instant, no phase is older than its budget *)
PhasesWithinBudget ==
    \A c \in Clients :
        /\ (c \in stepped /\ cl[c].st \in {"Pending", "Closing"}) => now < cSince[c] + Budget
        /\ ("s" \in stepped /\ sv[c].st \in {"Pending", "Closing"}) => now < sSince[c] + Budget
        /\ ("s" \in stepped /\ sv[c].st = "Closed") => now < sSince[c] + Linger
        /\ (c \in stepped /\ cl[c].st = "Closed") => now < cSince[c] + Linger
====================================================================================
