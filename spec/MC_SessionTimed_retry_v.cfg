SPECIFICATION TSpec
CONSTANTS
    Resend = 2
    Retries = 2
    ReAckAnyNonce = FALSE
    Linger = 3
    Clients = {"c0"}
    MaxActive = 1
    MaxTotal = 1
    TC = 5
    TS = 5
    Tmax = 14
    NetCap = 2
    Faults = 1
    Forgeries = 0
    DataFrames = 0
    Herr = TRUE
VIEW TimedView
INVARIANT AgreeWhenBothActive
INVARIANT LimitsAgree
INVARIANT Limits
INVARIANT NoTimingViolation
INVARIANT PhasesWithinBudget
CHECK_DEADLOCK FALSE
