INIT Init
NEXT Next
INVARIANT SyndromeMatches
INVARIANT NonZero
CHECK_DEADLOCK FALSE
