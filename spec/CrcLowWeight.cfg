INIT Init
NEXT Next
VIEW View
CONSTANT NBits = 2048
CHECK_DEADLOCK FALSE
