----------------------------------- MODULE Crc -----------------------------------
(* The CRC-32 of src/frame/serial/crc.rs over <<high 16 bits, low 16 bits>> pairs.
   Reflected bit-serial definition (register starts all ones, XOR factor 0x9960034C for
   polynomial 0x132c00699, final complement), and the table-driven form the code uses:
       crc' = (crc >> 8) ^ Table[(crc ^ byte) & 0xFF],   Table[i] = Slow(<<i>>),   crc_0 = 0 *)
EXTENDS Naturals, Sequences, Bitwise

Xor32(a, b) == << a[1] ^^ b[1], a[2] ^^ b[2] >>
Not32(a) == << 65535 - a[1], 65535 - a[2] >>
Shr1(a) == << a[1] \div 2, (a[2] \div 2) + ((a[1] % 2) * 32768) >>
Shr8(a) == << a[1] \div 256, ((a[1] % 256) * 256) + (a[2] \div 256) >>
Factor == << 39264, 844 >>                     \* 0x9960 034C

RECURSIVE Rounds(_, _)
Rounds(reg, n) == IF n = 0 THEN reg
                  ELSE Rounds(IF reg[2] % 2 = 1 THEN Xor32(Shr1(reg), Factor) ELSE Shr1(reg), n - 1)

SlowByte(reg, byte) == Rounds(<< reg[1], reg[2] ^^ byte >>, 8)
RECURSIVE SlowFold(_, _)
SlowFold(reg, data) == IF data = <<>> THEN reg ELSE SlowFold(SlowByte(reg, Head(data)), Tail(data))
Slow(data) == Not32(SlowFold(Not32(<<0, 0>>), data))

Table == [i \in 0..255 |-> Slow(<<i>>)]
TableLin == [i \in 0..255 |-> Xor32(Table[i], Table[0])]     \* linear part of the byte step

Step(crc, byte) == Xor32(Shr8(crc), Table[(crc[2] % 256) ^^ byte])
StepLin(d) == Xor32(Shr8(d), TableLin[d[2] % 256])           \* effect of one more (unchanged) byte on a difference

RECURSIVE Fold(_, _, _)
Fold(crc, data, i) == IF i > Len(data) THEN crc ELSE Fold(Step(crc, data[i]), data, i + 1)
Crc(data) == Fold(<<0, 0>>, data, 1)
CrcBytes(data) == LET c == Crc(data) IN << c[1] \div 256, c[1] % 256, c[2] \div 256, c[2] % 256 >>
====================================================================================
