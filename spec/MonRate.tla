--------------------------------- MODULE MonRate ---------------------------------
(* Property monitor for C13, validated by TLC against traces of the real HalfConnection.

   C13  over any time interval the bytes put on the wire do not exceed
        ceiling * (interval + current RTT estimate) + one maximum-size frame (1472 bytes).

   For emissions (t_k, b_k) the any-interval bound is equivalent to a running bucket:
        L_0 = 0,   L_j = b_j + max(0, L_{j-1} - r (t_j - t_{j-1})),   L_j <= r * RTT_j + 1472
   (induction on j: L_j is the maximum over i of sum_{k=i..j} b_k - r (t_j - t_i)).
   Arithmetic is in milli-bytes; the elapsed time is clipped just beyond the time the bucket
   needs to drain completely, which keeps all products below 2^31 without changing the level.
   "Current RTT estimate" is read in the weakest way that cannot flag conforming code: the
   larger of the estimates logged at the two latest step() calls (the credit cap is computed in
   step() before that step's feedback updates the estimate; frames leave afterwards), and, while
   the bucket has not been empty, the largest such value since it last was (the bytes still in the
   bucket were paid for by credit granted under those estimates). *)
EXTENDS TraceIO

VARIABLES
    ceil,     \* [ep -> ceiling in bytes/s]
    level,    \* [ep -> bucket level in milli-bytes]
    tPrev,    \* [ep -> time of the latest emission, ms]
    rttNow, rttPrev,   \* [ep -> RTT estimate in ms (rounded up) at the latest / previous step, 0 if none]
    rttMax,   \* [ep -> largest RTT estimate in force since the bucket was last empty]
    tStep, gapNow, gapPrev,   \* [ep -> time of the latest step; largest step spacing so far (ms); largest RTT estimate so far (ms)]
    nemit,    \* emissions judged (evidence)
    peak,     \* largest level/bound ratio seen, in percent (evidence)
    bad

vars == <<l, ceil, level, tPrev, rttNow, rttPrev, rttMax, tStep, gapNow, gapPrev, nemit, peak, bad>>
Eps == {"a", "b"}
Zero == [e \in Eps |-> 0]
Max(a, b) == IF a > b THEN a ELSE b
Min(a, b) == IF a < b THEN a ELSE b

Init == /\ l = 1 /\ ceil = Zero /\ level = Zero /\ tPrev = Zero /\ rttNow = Zero /\ rttPrev = Zero /\ rttMax = Zero /\ tStep = Zero /\ gapNow = Zero /\ gapPrev = Zero /\ nemit = 0 /\ peak = 0 /\ bad = {}

Flag(p, why) == IF Cardinality(bad) < 200 THEN {<<p, why, l>>} ELSE {}

Reset ==
    /\ IsEvent("Reset")
    /\ ceil' = [e \in Eps |-> IF e = "a" THEN Cur.ceil_a ELSE Cur.ceil_b]
    /\ level' = Zero /\ tPrev' = Zero /\ rttNow' = Zero /\ rttPrev' = Zero /\ rttMax' = Zero /\ tStep' = Zero /\ gapNow' = Zero /\ gapPrev' = Zero
    /\ UNCHANGED <<nemit, peak, bad>>

Step ==
    /\ IsEvent("Step")
    /\ LET e == Cur.ep
           ms == IF Cur.rtt_us < 0 THEN 0 ELSE (Cur.rtt_us + 999) \div 1000
       IN /\ rttPrev' = [rttPrev EXCEPT ![e] = rttNow[e]]
          /\ rttNow' = [rttNow EXCEPT ![e] = ms]
          /\ gapPrev' = [gapPrev EXCEPT ![e] = Max(@, ms)]
          /\ gapNow' = [gapNow EXCEPT ![e] = IF tStep[e] = 0 THEN @ ELSE Max(@, Min(Max(Cur.t - tStep[e], 0), 100000))]
          /\ tStep' = [tStep EXCEPT ![e] = Cur.t]
    /\ UNCHANGED <<ceil, level, tPrev, rttMax, nemit, peak, bad>>

Emit ==
    /\ IsEvent("Emit")
    /\ LET e == Cur.ep
           r == ceil[e]
           \* elapsed ms, clipped to just beyond the time the bucket needs to drain completely
           \* (keeps r * dt below 2^31 without under-estimating the drain)
           dt == IF r > 0 THEN Min(Max(Cur.t - tPrev[e], 0), level[e] \div r + 1) ELSE 0
           lv == Cur.len * 1000 + Max(0, level[e] - r * dt)
           \* "current RTT estimate": the credit that paid for the bytes still in the bucket was granted under the
           \* estimates in force since the bucket was last empty, so the allowance is the largest of those (an
           \* estimate that shrinks while the sender runs at the ceiling must not turn earlier, permitted bursts
           \* into violations)
           drained == level[e] - r * dt <= 0
           rtt == IF drained THEN Max(rttNow[e], rttPrev[e]) ELSE Max(rttMax[e], Max(rttNow[e], rttPrev[e]))
           judged == r >= 1472 /\ r <= 2000000 /\ r * Min(rtt, 1000) <= 1000000000 /\ rtt <= 1000000000 \div r
           bound == r * rtt + 1472000
       IN /\ level' = [level EXCEPT ![e] = Min(lv, 2000000000)]
          /\ tPrev' = [tPrev EXCEPT ![e] = Cur.t]
          /\ rttMax' = [rttMax EXCEPT ![e] = rtt]
          \* (until fixes 62262af and 8b67270 part of the excess was a known finding - credit of two intervals spent at
          \* one instant, F22 - and hid a second defect, the rounding drift of the refill, F25; both are repaired and
          \* every excess is a violation)
          /\ bad' = bad \cup (IF judged /\ lv > bound THEN Flag("C13", "burst-above-ceiling") ELSE {})
          /\ nemit' = IF judged THEN nemit + 1 ELSE nemit
          /\ peak' = IF judged THEN Max(peak, ((lv \div 1000) * 100) \div (bound \div 1000)) ELSE peak
    /\ UNCHANGED <<ceil, rttNow, rttPrev, tStep, gapNow, gapPrev>>

Skip ==
    /\ IsOneOf({"End", "FaultsEnd", "Net", "Deliver", "Ret", "Probes", "FlushEnd", "RecvEnd", "Send", "Probe", "Handle", "Quiesced"})
    /\ UNCHANGED <<ceil, level, tPrev, rttNow, rttPrev, rttMax, tStep, gapNow, gapPrev, nemit, peak, bad>>

Next == Reset \/ Step \/ Emit \/ Skip
Spec == Init /\ [][Next]_vars

AtEnd == l = NRec + 1
Brief == IF AtEnd THEN [l |-> l, bad |-> bad, nemit |-> nemit, peak |-> peak] ELSE [l |-> l]
Holds(p) == AtEnd => NoneFor(bad, p)
C13 == Holds("C13")
Report == AtEnd => PrintT(<<"RATE-REPORT", nemit, peak>>)
====================================================================================
