-------------------------------- MODULE MonRobust --------------------------------
(* Property monitor for C03: every call into the library returns normally.  The harness runs
   each API call under catch_unwind and a real-time watchdog and logs a Ret line with outcome
   "panic" or "hang" when it does not; a run that reaches End without one counts as survived. *)
EXTENDS TraceIO

VARIABLES ncalls, nruns, bad
vars == <<l, ncalls, nruns, bad>>

Init == l = 1 /\ ncalls = 0 /\ nruns = 0 /\ bad = {}
Flag(p, why) == IF Cardinality(bad) < 200 THEN {<<p, why, l>>} ELSE {}

Ret ==
    /\ IsEvent("Ret")
    /\ bad' = bad \cup (IF Cur.outcome = "panic" THEN Flag("C03", "panic")
                        ELSE IF Cur.outcome = "hang" THEN Flag("C03", "hang")
                        ELSE IF Cur.outcome # "ok" THEN Flag("C03", "abnormal-return") ELSE {})
    /\ UNCHANGED <<ncalls, nruns>>

End ==
    /\ IsEvent("End")
    /\ ncalls' = ncalls + (IF Cur.calls < 1000000 THEN Cur.calls ELSE 1000000)
    /\ nruns' = nruns + 1
    /\ UNCHANGED bad

EchoFail ==      \* an endpoint that survived hostile input must still complete an exchange
    /\ IsEvent("Echo")
    /\ bad' = bad \cup (IF ~Cur.ok THEN Flag("C03", "no-service-after-hostile-input") ELSE {})
    /\ UNCHANGED <<ncalls, nruns>>

Skip ==
    /\ l <= NRec /\ Rec[l].ev \notin {"Ret", "End", "Echo"} /\ l' = l + 1
    /\ UNCHANGED <<ncalls, nruns, bad>>

Next == Ret \/ End \/ EchoFail \/ Skip
Spec == Init /\ [][Next]_vars

AtEnd == l = NRec + 1
Brief == IF AtEnd THEN [l |-> l, bad |-> bad, ncalls |-> ncalls, nruns |-> nruns] ELSE [l |-> l]
C03 == AtEnd => NoneFor(bad, "C03")
Report == AtEnd => PrintT(<<"ROBUST-REPORT", nruns, ncalls>>)
====================================================================================
