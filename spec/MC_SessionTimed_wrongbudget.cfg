SPECIFICATION TSpec
CONSTANTS
    Budget <- WrongBudget
    Resend = 1
    Retries = 2
    ReAckAnyNonce = FALSE
    Linger = 2
    Clients = {"c0"}
    MaxActive = 1
    MaxTotal = 1
    TC = 2
    TS = 2
    Tmax = 7
    NetCap = 2
    Faults = 1
    Forgeries = 0
    DataFrames = 0
    Herr = TRUE
VIEW TimedView
INVARIANT AgreeWhenBothActive
INVARIANT LimitsAgree
INVARIANT Limits
INVARIANT NoTimingViolation
INVARIANT PhasesWithinBudget
CHECK_DEADLOCK FALSE
