---------------------------------- MODULE Codec ----------------------------------
(* Wire encoding of the nine uflow frame types (src/frame/serial), as operators from abstract
   frame records to byte sequences WITHOUT the trailing CRC-32 (see Crc.tla).  32-bit fields are
   records' pairs <<high 16 bits, low 16 bits>>; a 20-bit packet id is <<high 4 bits, low 16 bits>>.

   Used in two directions: MC_Codec enumerates boundary frames and prints (frame, bytes) vectors
   that the harness pushes through the real Frame::write / Frame::read; MonCodec validates what
   the real code produced for seeded random frames against Encode. *)
EXTENDS Naturals, Sequences

B16(v) == <<v \div 256, v % 256>>
B32(p) == B16(p[1]) \o B16(p[2])
Zeros(n) == [i \in 1..n |-> 0]
Bit(v, k) == (v \div (2 ^ k)) % 2

MaxFrame == 1472
SynLen == MaxFrame - 4          \* SYN is padded to a full frame

DgMicro(d) == d.last = 0 /\ Len(d.data) < 64 /\ d.wpl < 128 /\ d.cpl < 256
DgSmall(d) == d.last = 0 /\ Len(d.data) < 256

EncDatagram(d) ==
    IF DgMicro(d) THEN
        << Len(d.data) + (64 * Bit(d.ch, 4)),
           (d.seq[1] * 16) + (d.ch % 16),
           d.seq[2] \div 256, d.seq[2] % 256,
           d.wpl + (128 * Bit(d.ch, 5)),
           d.cpl >> \o d.data
    ELSE IF DgSmall(d) THEN
        << d.ch + 128, Len(d.data), d.seq[1] >> \o B16(d.seq[2]) \o B16(d.wpl) \o B16(d.cpl) \o d.data
    ELSE
        << d.ch + 192 >> \o B16(Len(d.data)) \o << d.seq[1] >> \o B16(d.seq[2]) \o B16(d.wpl) \o B16(d.cpl)
           \o B16(d.frag) \o B16(d.last) \o d.data

RECURSIVE EncDatagrams(_)
EncDatagrams(ds) == IF ds = <<>> THEN <<>> ELSE EncDatagram(Head(ds)) \o EncDatagrams(Tail(ds))

EncGroup(g) == B32(g.base) \o B32(g.bits) \o << IF g.nonce THEN 1 ELSE 0 >>
RECURSIVE EncGroups(_)
EncGroups(gs) == IF gs = <<>> THEN <<>> ELSE EncGroup(Head(gs)) \o EncGroups(Tail(gs))

ErrCode(e) == CASE e = "Version" -> 0 [] e = "Config" -> 1 [] e = "ServerFull" -> 2

Encode(f) ==
    CASE f.t = "SYN" ->
            LET hdr == << 0, f.version >> \o B32(f.nonce) \o B32(f.rate) \o B32(f.psize) \o B32(f.alloc)
            IN  hdr \o Zeros(SynLen - Len(hdr))
      [] f.t = "SYNACK"  -> << 1 >> \o B32(f.nonce_ack) \o B32(f.nonce) \o B32(f.rate) \o B32(f.psize) \o B32(f.alloc)
      [] f.t = "ACK"     -> << 2 >> \o B32(f.nonce_ack)
      [] f.t = "ERR"     -> << 3 >> \o B32(f.nonce_ack) \o << ErrCode(f.err) >>
      [] f.t = "DISC"    -> << 4 >>
      [] f.t = "DISCACK" -> << 5 >>
      [] f.t = "DATA"    -> << 10 >> \o B32(f.seq) \o << (IF f.nonce THEN 128 ELSE 0) + Len(f.dgs) >> \o EncDatagrams(f.dgs)
      [] f.t = "SYNC"    -> << 11, (IF f.has_f THEN 1 ELSE 0) + (IF f.has_p THEN 2 ELSE 0) >>
                               \o B32(IF f.has_f THEN f.nfid ELSE <<0, 0>>) \o B32(IF f.has_p THEN f.npid ELSE <<0, 0>>)
      [] f.t = "ACKF"    -> << 12 >> \o B32(f.fbase) \o B32(f.pbase) \o B16(Len(f.groups)) \o EncGroups(f.groups)

(* ---------------------------------------------------------------------------------------------
   The other direction: Decode(b) is the frame a receiver must obtain from the byte sequence b (a frame
   WITHOUT its CRC; the CRC comparison is in MonCodec), or Rejected when b is not exactly one well-formed
   frame: unknown type byte, wrong length for a fixed-size type, an error code outside 0..2, a datagram or
   ack-group count that does not match the bytes present (missing or trailing bytes).  Bits the encoding does
   not use (the SYN padding, the upper bits of a sync mode byte, the upper nibble of a 20-bit id's first byte
   in the small and large encodings) are ignored by the receiver, so Decode is a left inverse of Encode but
   not injective.  Transcribed from the wire format, not from the parser: src/frame/serial/mod.rs read_*. *)
Rejected == [t |-> "REJECT"]
U16(a, c) == a * 256 + c
P32(b, i) == << U16(b[i], b[i + 1]), U16(b[i + 2], b[i + 3]) >>

(* one datagram starting at index i of b: [ok, dg, next] *)
DecDatagram(b, i) ==
    LET rem == Len(b) - i + 1 IN
    IF rem < 6 THEN [ok |-> FALSE]
    ELSE IF b[i] < 128 THEN                                     \* micro: 6-byte header
        LET n == b[i] % 64 IN
        IF rem < 6 + n THEN [ok |-> FALSE]
        ELSE [ok |-> TRUE, next |-> i + 6 + n,
              dg |-> [seq |-> << b[i + 1] \div 16, U16(b[i + 2], b[i + 3]) >>,
                      ch |-> 32 * Bit(b[i + 4], 7) + 16 * Bit(b[i], 6) + (b[i + 1] % 16),
                      wpl |-> b[i + 4] % 128, cpl |-> b[i + 5], frag |-> 0, last |-> 0,
                      data |-> SubSeq(b, i + 6, i + 5 + n)]]
    ELSE IF b[i] < 192 THEN                                     \* small: 9-byte header
        LET n == b[i + 1] IN
        IF rem < 9 + n THEN [ok |-> FALSE]
        ELSE [ok |-> TRUE, next |-> i + 9 + n,
              dg |-> [seq |-> << b[i + 2] % 16, U16(b[i + 3], b[i + 4]) >>, ch |-> b[i] % 64,
                      wpl |-> U16(b[i + 5], b[i + 6]), cpl |-> U16(b[i + 7], b[i + 8]), frag |-> 0, last |-> 0,
                      data |-> SubSeq(b, i + 9, i + 8 + n)]]
    ELSE                                                        \* large: 14-byte header
        LET n == U16(b[i + 1], b[i + 2]) IN
        IF rem < 14 + n THEN [ok |-> FALSE]
        ELSE [ok |-> TRUE, next |-> i + 14 + n,
              dg |-> [seq |-> << b[i + 3] % 16, U16(b[i + 4], b[i + 5]) >>, ch |-> b[i] % 64,
                      wpl |-> U16(b[i + 6], b[i + 7]), cpl |-> U16(b[i + 8], b[i + 9]),
                      frag |-> U16(b[i + 10], b[i + 11]), last |-> U16(b[i + 12], b[i + 13]),
                      data |-> SubSeq(b, i + 14, i + 13 + n)]]

(* k datagrams from index i, then nothing: the sequence of datagrams, or <<"bad">> *)
RECURSIVE DecDatagrams(_, _, _, _)
DecDatagrams(b, i, k, acc) ==
    IF k = 0 THEN (IF i = Len(b) + 1 THEN [ok |-> TRUE, dgs |-> acc] ELSE [ok |-> FALSE])
    ELSE LET d == DecDatagram(b, i) IN
         IF ~d.ok THEN [ok |-> FALSE] ELSE DecDatagrams(b, d.next, k - 1, Append(acc, d.dg))

DecGroups(b, k) == [j \in 1..k |-> [base |-> P32(b, 12 + 9 * (j - 1)), bits |-> P32(b, 16 + 9 * (j - 1)), nonce |-> b[20 + 9 * (j - 1)] # 0]]

Decode(b) ==
    IF Len(b) < 1 THEN Rejected ELSE
    LET n == Len(b) t == b[1] IN
    CASE t = 0 -> IF n # SynLen THEN Rejected
                  ELSE [t |-> "SYN", version |-> b[2], nonce |-> P32(b, 3), rate |-> P32(b, 7), psize |-> P32(b, 11), alloc |-> P32(b, 15)]
      [] t = 1 -> IF n # 21 THEN Rejected
                  ELSE [t |-> "SYNACK", nonce_ack |-> P32(b, 2), nonce |-> P32(b, 6), rate |-> P32(b, 10), psize |-> P32(b, 14), alloc |-> P32(b, 18)]
      [] t = 2 -> IF n # 5 THEN Rejected ELSE [t |-> "ACK", nonce_ack |-> P32(b, 2)]
      [] t = 3 -> IF n # 6 \/ b[6] > 2 THEN Rejected
                  ELSE [t |-> "ERR", nonce_ack |-> P32(b, 2), err |-> CASE b[6] = 0 -> "Version" [] b[6] = 1 -> "Config" [] b[6] = 2 -> "ServerFull"]
      [] t = 4 -> IF n # 1 THEN Rejected ELSE [t |-> "DISC"]
      [] t = 5 -> IF n # 1 THEN Rejected ELSE [t |-> "DISCACK"]
      [] t = 10 -> IF n < 6 THEN Rejected
                   ELSE LET r == DecDatagrams(b, 7, b[6] % 128, <<>>) IN
                        IF ~r.ok THEN Rejected ELSE [t |-> "DATA", seq |-> P32(b, 2), nonce |-> b[6] >= 128, dgs |-> r.dgs]
      [] t = 11 -> IF n # 10 THEN Rejected
                   ELSE LET hf == Bit(b[2], 0) = 1  hp == Bit(b[2], 1) = 1 IN
                        [t |-> "SYNC", has_f |-> hf, has_p |-> hp, nfid |-> IF hf THEN P32(b, 3) ELSE <<0, 0>>, npid |-> IF hp THEN P32(b, 7) ELSE <<0, 0>>]
      [] t = 12 -> IF n < 11 THEN Rejected
                   ELSE LET k == U16(b[10], b[11]) IN
                        IF n # 11 + 9 * k THEN Rejected
                        ELSE [t |-> "ACKF", fbase |-> P32(b, 2), pbase |-> P32(b, 6), groups |-> DecGroups(b, k)]
      [] OTHER -> Rejected

(* Length of a well-formed frame on the wire (with CRC), for the types of fixed size. *)
WireLen(t) == CASE t = "SYN" -> 1472 [] t = "SYNACK" -> 25 [] t = "ACK" -> 9 [] t = "ERR" -> 10
                [] t = "DISC" -> 5 [] t = "DISCACK" -> 5 [] t = "SYNC" -> 14
====================================================================================
