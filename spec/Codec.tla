---------------------------------- MODULE Codec ----------------------------------
(* Wire encoding of the nine uflow frame types (src/frame/serial), as operators from abstract
   frame records to byte sequences WITHOUT the trailing CRC-32 (see Crc.tla).  32-bit fields are
   records' pairs <<high 16 bits, low 16 bits>>; a 20-bit packet id is <<high 4 bits, low 16 bits>>.

   Used in two directions: MC_Codec enumerates boundary frames and prints (frame, bytes) vectors
   that the harness pushes through the real Frame::write / Frame::read; MonCodec validates what
   the real code produced for seeded random frames against Encode. *)
EXTENDS Naturals, Sequences

B16(v) == <<v \div 256, v % 256>>
B32(p) == B16(p[1]) \o B16(p[2])
Zeros(n) == [i \in 1..n |-> 0]
Bit(v, k) == (v \div (2 ^ k)) % 2

MaxFrame == 1472
SynLen == MaxFrame - 4          \* SYN is padded to a full frame

DgMicro(d) == d.last = 0 /\ Len(d.data) < 64 /\ d.wpl < 128 /\ d.cpl < 256
DgSmall(d) == d.last = 0 /\ Len(d.data) < 256

EncDatagram(d) ==
    IF DgMicro(d) THEN
        << Len(d.data) + (64 * Bit(d.ch, 4)),
           (d.seq[1] * 16) + (d.ch % 16),
           d.seq[2] \div 256, d.seq[2] % 256,
           d.wpl + (128 * Bit(d.ch, 5)),
           d.cpl >> \o d.data
    ELSE IF DgSmall(d) THEN
        << d.ch + 128, Len(d.data), d.seq[1] >> \o B16(d.seq[2]) \o B16(d.wpl) \o B16(d.cpl) \o d.data
    ELSE
        << d.ch + 192 >> \o B16(Len(d.data)) \o << d.seq[1] >> \o B16(d.seq[2]) \o B16(d.wpl) \o B16(d.cpl)
           \o B16(d.frag) \o B16(d.last) \o d.data

RECURSIVE EncDatagrams(_)
EncDatagrams(ds) == IF ds = <<>> THEN <<>> ELSE EncDatagram(Head(ds)) \o EncDatagrams(Tail(ds))

EncGroup(g) == B32(g.base) \o B32(g.bits) \o << IF g.nonce THEN 1 ELSE 0 >>
RECURSIVE EncGroups(_)
EncGroups(gs) == IF gs = <<>> THEN <<>> ELSE EncGroup(Head(gs)) \o EncGroups(Tail(gs))

ErrCode(e) == CASE e = "Version" -> 0 [] e = "Config" -> 1 [] e = "ServerFull" -> 2

Encode(f) ==
    CASE f.t = "SYN" ->
            LET hdr == << 0, f.version >> \o B32(f.nonce) \o B32(f.rate) \o B32(f.psize) \o B32(f.alloc)
            IN  hdr \o Zeros(SynLen - Len(hdr))
      [] f.t = "SYNACK"  -> << 1 >> \o B32(f.nonce_ack) \o B32(f.nonce) \o B32(f.rate) \o B32(f.psize) \o B32(f.alloc)
      [] f.t = "ACK"     -> << 2 >> \o B32(f.nonce_ack)
      [] f.t = "ERR"     -> << 3 >> \o B32(f.nonce_ack) \o << ErrCode(f.err) >>
      [] f.t = "DISC"    -> << 4 >>
      [] f.t = "DISCACK" -> << 5 >>
      [] f.t = "DATA"    -> << 10 >> \o B32(f.seq) \o << (IF f.nonce THEN 128 ELSE 0) + Len(f.dgs) >> \o EncDatagrams(f.dgs)
      [] f.t = "SYNC"    -> << 11, (IF f.has_f THEN 1 ELSE 0) + (IF f.has_p THEN 2 ELSE 0) >>
                               \o B32(IF f.has_f THEN f.nfid ELSE <<0, 0>>) \o B32(IF f.has_p THEN f.npid ELSE <<0, 0>>)
      [] f.t = "ACKF"    -> << 12 >> \o B32(f.fbase) \o B32(f.pbase) \o B16(Len(f.groups)) \o EncGroups(f.groups)

(* Length of a well-formed frame on the wire (with CRC), for the types of fixed size. *)
WireLen(t) == CASE t = "SYN" -> 1472 [] t = "SYNACK" -> 25 [] t = "ACK" -> 9 [] t = "ERR" -> 10
                [] t = "DISC" -> 5 [] t = "DISCACK" -> 5 [] t = "SYNC" -> 14
====================================================================================
