-------------------------------- MODULE BucketLemma --------------------------------
(* The any-interval form of C13 and the running-bucket form evaluated by MonRate.tla agree.

   Emissions (t_1, b_1) .. (t_n, b_n) with non-decreasing times, rate r, allowance A_j at the
   j-th emission (in MonRate: r * RTT_j + 1472).  Any-interval form: for all i <= j,
        b_i + .. + b_j  <=  r * (t_j - t_i) + A_j.
   Bucket form:  L_1 = b_1,  L_j = b_j + max(0, L_{j-1} - r * (t_j - t_{j-1})),  L_j <= A_j.
   Claim: L_j = max over i <= j of (b_i + .. + b_j - r * (t_j - t_i)); hence the two forms accept
   exactly the same emission sequences.  TLC checks the claim for every sequence of up to N
   emissions with gaps, sizes and rates from small sets (an exhaustive small-scope check of the
   lemma the monitor rests on; the induction is three lines, see DESIGN.md A.3). *)
EXTENDS Integers, Sequences, FiniteSets

CONSTANTS N, Gaps, Sizes, Rates

Max(a, b) == IF a > b THEN a ELSE b

RECURSIVE SumB(_, _, _)
SumB(b, i, j) == IF i > j THEN 0 ELSE b[i] + SumB(b, i + 1, j)

RECURSIVE Level(_, _, _, _)
Level(t, b, r, j) == IF j = 1 THEN b[1] ELSE b[j] + Max(0, Level(t, b, r, j - 1) - r * (t[j] - t[j - 1]))

Interval(t, b, r, i, j) == SumB(b, i, j) - r * (t[j] - t[i])
MaxOver(t, b, r, j) == LET S == {Interval(t, b, r, i, j) : i \in 1..j} IN CHOOSE m \in S : \A x \in S : x <= m

VARIABLES t, b, r
Init == t = <<>> /\ b = <<>> /\ r \in Rates
Next == /\ Len(t) < N
        /\ \E g \in Gaps, s \in Sizes :
              /\ t' = Append(t, IF t = <<>> THEN 0 ELSE t[Len(t)] + g)
              /\ b' = Append(b, s)
        /\ UNCHANGED r
Spec == Init /\ [][Next]_<<t, b, r>>

BucketIsMaxOverIntervals == t # <<>> => \A j \in 1..Len(t) : Level(t, b, r, j) = MaxOver(t, b, r, j)
====================================================================================
