SPECIFICATION Spec
CONSTANTS
    Cap = 4
    FrameMax = 3
    RateN = 7
    RateD = 3
    MaxT = 8
    Variant = "repaired"
INVARIANTS TypeOK RateBound
CHECK_DEADLOCK FALSE
