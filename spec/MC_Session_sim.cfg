SPECIFICATION Spec
CONSTANTS
    Resend = 2
    Retries = 1
    ReAckAnyNonce = FALSE
    Linger = 2
    Clients = {"c0", "c1"}
    MaxActive = 1
    MaxTotal = 2
    TC = 3
    TS = 3
    Tmax = 10
    NetCap = 3
    Faults = 3
    Forgeries = 2
    DataFrames = 3
    Herr = TRUE
INVARIANT EventStreamsWellFormed
INVARIANT AgreeWhenBothActive
INVARIANT LimitsAgree
INVARIANT ServerConnectionsAreAcknowledged
INVARIANT ClientConnectionsEchoItsNonce
INVARIANT Limits
INVARIANT NoViolation
INVARIANT NoAmplification
CHECK_DEADLOCK FALSE
