SPECIFICATION Spec
CONSTANTS
    N = 4
    PacketLens = {4, 10, 63, 64, 255, 256, 700, 1448, 1449, 2896, 3000}
    Credits <- CreditsDef
    Rooms = {1, 2, 8}
INVARIANT Case
CHECK_DEADLOCK FALSE
