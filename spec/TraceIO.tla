--------------------------------- MODULE TraceIO ---------------------------------
(* Shared plumbing for every trace specification: the recorded execution is an ndjson file
   named by the environment variable TRACE; one line is consumed per step.  A trace spec
   EXTENDS this module, defines its own variables and a Next built from IsEvent(..). *)
EXTENDS Naturals, Integers, Sequences, FiniteSets, TLC, Json, IOUtils

Rec == ndJsonDeserialize(IOEnv.TRACE)
NRec == Len(Rec)

VARIABLE l          \* index of the next line to consume

Ev(i) == Rec[i].ev
IsEvent(k) == l <= NRec /\ Rec[l].ev = k /\ l' = l + 1
IsOneOf(S) == l <= NRec /\ Rec[l].ev \in S /\ l' = l + 1
Cur == Rec[l]

(* Verdict of a monitor for one property: no collected triple names it.  The set is also printed,
   so the driver does not depend on TLC finishing the (long) counterexample listing. *)
NoneFor(B, p) == IF \A b \in B : b[1] # p THEN TRUE ELSE PrintT(<<"BAD-SET", B>>) /\ FALSE

(* Acceptance: every line was consumed.  TLC's diameter counts the initial state too. *)
Accepted ==
    LET d == TLCGet("stats").diameter IN
    IF d - 1 = NRec THEN TRUE
    ELSE /\ PrintT(<<"TRACE-REJECTED at line", d, IF d <= NRec THEN Rec[d] ELSE "eof">>)
         /\ FALSE
====================================================================================
