SPECIFICATION RSpec
CONSTANTS
    PW = 4
    FW = 64
    PMod = 16
    FMod = 256
    PBase0 = 14
    FBase0 = 250
    Chans = {0, 1}
    Modes = {"U", "R"}
    FragCounts = {1}
    TxAlloc = 8
    RxAlloc = 8
    MaxSend = 4
    MaxFrames = 100
    MaxSyncs = 1
    MaxEpoch = 0
    NetCap = 1
    Faults = 0
    GW = 32
    Keepalive = FALSE
    FreeNonce = FALSE
    MaxHandled = 5
    MaxSyncHanded = 2
INVARIANT InOrderAtMostOnce
INVARIANT ReliableNeverSkipped
INVARIANT RxAllocBound
CHECK_DEADLOCK FALSE
VIEW RecvView
