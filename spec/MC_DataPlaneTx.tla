------------------------------ MODULE MC_DataPlaneTx ------------------------------
(* C12 on the data-plane model: what the sender puts on the wire, by send mode.  DataPlane.tla
   does not remember what it has emitted, so this module adds a history of emitted (uid, fragment)
   pairs and classifies every emission when it happens:
     - a fragment of an Unreliable / TimeSensitive packet is emitted at most once;
     - the first fragment of a TimeSensitive packet is not emitted once step() has been called
       since the packet was submitted (epoch changed);
     - a fragment of a Persistent / Reliable packet is not emitted again after an acknowledgement
       for it has been processed, nor after the receiver has reported moving past the packet.
   An emission is recognised in the step itself: the frame counter grows and a data frame gains a
   copy in the network bag. *)
EXTENDS DataPlane

VARIABLES sent, badTx
txvars == <<vars, sent, badTx>>

StateConstraint == nframes <= MaxFrames /\ nsyncs <= MaxSyncs

Emitted == IF nframes' = nframes + 1
           THEN {f \in BagToSet(netD') : f.t = "D" /\ CopiesIn(f, netD') > CopiesIn(f, netD)}
           ELSE {}

Verdict(f) ==
    LET key == <<f.uid, f.frag>>
        m == submitted[f.uid].mode
    IN  (IF m \in {"U", "T"} /\ key \in sent THEN {"unreliable-fragment-sent-twice"} ELSE {})
   \cup (IF m = "T" /\ f.frag = 0 /\ key \notin sent /\ f.pid \in DOMAIN sWin' /\ sWin'[f.pid].ep # epoch
            THEN {"timesensitive-begun-after-step"} ELSE {})
   \cup (IF m \in {"P", "R"} /\ f.pid \in DOMAIN sWin /\ sWin[f.pid].uid = f.uid /\ f.frag \in sWin[f.pid].acked
            THEN {"resent-after-ack-processed"} ELSE {})
   \cup (IF m \in {"P", "R"} /\ key \in sent /\ ~(f.pid \in DOMAIN sWin /\ sWin[f.pid].uid = f.uid)
            THEN {"resent-after-receiver-moved-past"} ELSE {})

TxInit == Init /\ sent = {} /\ badTx = {}
TxNext == /\ Next
          /\ sent' = sent \cup {<<f.uid, f.frag>> : f \in Emitted}
          /\ badTx' = badTx \cup UNION {Verdict(f) : f \in Emitted}
TxSpec == TxInit /\ [][TxNext]_txvars

TransmitByMode == badTx = {}
====================================================================================
