SPECIFICATION Spec
CONSTANTS
    PW = 2
    FW = 2
    PMod = 8
    FMod = 16
    PBase0 = 7
    FBase0 = 15
    Chans = {0, 1}
    Modes = {"U", "R"}
    FragCounts = {1, 2}
    TxAlloc = 3
    RxAlloc = 3
    MaxSend = 3
    MaxFrames = 6
    MaxSyncs = 1
    MaxEpoch = 0
    NetCap = 2
    Faults = 2
    GW = 32
    Keepalive = FALSE
CONSTRAINT StateConstraint
INVARIANT TypeOK
INVARIANT WindowsConsistent
INVARIANT InOrderAtMostOnce
INVARIANT ReliableNeverSkipped
INVARIANT RxAllocBound
INVARIANT TxRespectsPeer
INVARIANT NoPlaceholderBetweenHonest
INVARIANT BufferSizeExact
CHECK_DEADLOCK FALSE
