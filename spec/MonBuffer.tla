-------------------------------- MODULE MonBuffer --------------------------------
(* Property monitor for buffer accounting, validated by TLC against traces of the real
   HalfConnection.

   C20  after every call, send_buffer_size() equals the payload bytes of the packets accepted
        by send() that are neither acknowledged (the peer's packet window base has passed
        them, as reported by a valid ack frame handed to the sender) nor discarded as stale
        TimeSensitive packets; it never underflows.  Discarding is lazy and not observable,
        so the monitor keeps a lower and an upper model: a TimeSensitive packet that had not
        begun at the step after its send MAY have been discarded; it HAS been discarded once a
        later packet of the same sender is on the wire (the send queue is FIFO).
   C06  (sender half) packets on the wire and not yet passed by the peer never number more than
        the packet window, nor hold more than the peer's advertised receive allocation
        (fragment-rounded); (receiver half) the receive-allocation counter never exceeds the
        configured limit rounded up to a whole fragment.  Between two honest endpoints "no packet
        is ever discarded for lack of receive memory": that rests on the receiver charging no more
        than the sender accounts for, so in runs without forged frames the receiver's counter never
        exceeds the fragment-rounded bytes the sender still has outstanding (the receiver releases
        a packet when it delivers or skips it, the sender only when the acknowledgement arrives),
        and is zero again once the connection is quiescent and the sender has nothing outstanding. *)
EXTENDS TraceIO

VARIABLES
    sub,         \* sequence over uid: [ep, mode, len]
    begun,       \* uids with at least one fragment on the wire
    open,        \* [ep -> set of <<pid, uid>> on the wire, not yet passed]
    unacked,     \* [ep -> bytes accepted and not passed]
    tsFresh,     \* [ep -> TimeSensitive uids sent since the last step, not begun]
    tsMaybe,     \* [ep -> TimeSensitive uids that may have been discarded]
    maybeSum, certainSum,   \* [ep -> bytes]
    outCount, outAlloc,     \* [ep -> packets / fragment-rounded bytes on the wire and not passed]
    cfg,         \* [pw, alloc: [ep -> receive allocation limit of ep], honest: no forged frames in this run]
    nprobe,      \* number of probes judged (evidence)
    bad

vars == <<l, sub, begun, open, unacked, tsFresh, tsMaybe, maybeSum, certainSum, outCount, outAlloc, cfg, nprobe, bad>>

Eps == {"a", "b"}
Other(e) == IF e = "a" THEN "b" ELSE "a"
NoneS == [e \in Eps |-> {}]
ZeroI == [e \in Eps |-> 0]
FragSize == 1448
AllocSize(n) == IF n > FragSize THEN ((n + FragSize - 1) \div FragSize) * FragSize ELSE n
Ceil(n) == ((n + FragSize - 1) \div FragSize) * FragSize

RECURSIVE SumLen(_, _)
SumLen(S, s) == IF S = {} THEN 0 ELSE LET u == CHOOSE x \in S : TRUE IN s[u].len + SumLen(S \ {u}, s)
RECURSIVE SumAlloc(_, _)
SumAlloc(S, s) == IF S = {} THEN 0 ELSE LET u == CHOOSE x \in S : TRUE IN AllocSize(s[u].len) + SumAlloc(S \ {u}, s)

Init ==
    /\ l = 1 /\ sub = <<>> /\ begun = {} /\ open = NoneS /\ unacked = ZeroI /\ tsFresh = NoneS /\ tsMaybe = NoneS
    /\ maybeSum = ZeroI /\ certainSum = ZeroI /\ outCount = ZeroI /\ outAlloc = ZeroI
    /\ cfg = [pw |-> 4096, alloc |-> [e \in Eps |-> 0], honest |-> FALSE] /\ nprobe = 0 /\ bad = {}

Flag(p, why) == IF Cardinality(bad) < 200 THEN {<<p, why, l>>} ELSE {}

Reset ==
    /\ IsEvent("Reset")
    /\ sub' = <<>> /\ begun' = {} /\ open' = NoneS /\ unacked' = ZeroI /\ tsFresh' = NoneS /\ tsMaybe' = NoneS
    /\ maybeSum' = ZeroI /\ certainSum' = ZeroI /\ outCount' = ZeroI /\ outAlloc' = ZeroI
    /\ cfg' = [pw |-> Cur.cfg.pw, alloc |-> [e \in Eps |-> IF e = "a" THEN Cur.cfg.rx_alloc_a ELSE Cur.cfg.rx_alloc_b],
               honest |-> IF "honest" \in DOMAIN Cur THEN Cur.honest ELSE FALSE]
    /\ UNCHANGED <<nprobe, bad>>

Send ==
    /\ IsEvent("Send")
    /\ Cur.uid = Len(sub) + 1
    /\ sub' = Append(sub, [ep |-> Cur.ep, mode |-> Cur.mode, len |-> Cur.len])
    /\ unacked' = [unacked EXCEPT ![Cur.ep] = @ + Cur.len]
    /\ tsFresh' = IF Cur.mode = "T" THEN [tsFresh EXCEPT ![Cur.ep] = @ \cup {Cur.uid}] ELSE tsFresh
    /\ UNCHANGED <<begun, open, tsMaybe, maybeSum, certainSum, outCount, outAlloc, cfg, nprobe, bad>>

Step ==
    /\ IsEvent("Step")
    /\ LET e == Cur.ep IN
       /\ tsMaybe' = [tsMaybe EXCEPT ![e] = @ \cup tsFresh[e]]
       /\ maybeSum' = [maybeSum EXCEPT ![e] = @ + SumLen(tsFresh[e], sub)]
       /\ tsFresh' = [tsFresh EXCEPT ![e] = {}]
    /\ UNCHANGED <<sub, begun, open, unacked, certainSum, outCount, outAlloc, cfg, nprobe, bad>>

EmitData ==
    /\ IsEvent("Emit") /\ Cur.kind = "D"
    /\ LET e == Cur.ep
           dgs == Cur.dgs
           known == {i \in 1..Len(dgs) : dgs[i].uid >= 1 /\ dgs[i].uid <= Len(sub)}
           here == {dgs[i].uid : i \in known}
           new == here \ begun
           top == IF here = {} THEN 0 ELSE CHOOSE m \in here : \A x \in here : x <= m
           \* TimeSensitive packets of this sender older than something now on the wire, never begun
           dropF == {u \in tsFresh[e] : u < top /\ u \notin here}
           dropM == {u \in tsMaybe[e] : u < top /\ u \notin here}
           newCount == outCount[e] + Cardinality(new)
           newAlloc == outAlloc[e] + SumAlloc(new, sub)
       IN
       /\ begun' = begun \cup new
       /\ open' = [open EXCEPT ![e] = @ \cup {<<dgs[i].pid, dgs[i].uid>> : i \in {k \in known : dgs[k].uid \in new}}]
       /\ tsFresh' = [tsFresh EXCEPT ![e] = (@ \ here) \ dropF]
       /\ tsMaybe' = [tsMaybe EXCEPT ![e] = (@ \ here) \ dropM]
       /\ maybeSum' = [maybeSum EXCEPT ![e] = @ - SumLen(tsMaybe[e] \cap here, sub) - SumLen(dropM, sub)]
       /\ certainSum' = [certainSum EXCEPT ![e] = @ + SumLen(dropF, sub) + SumLen(dropM, sub)]
       /\ outCount' = [outCount EXCEPT ![e] = newCount]
       /\ outAlloc' = [outAlloc EXCEPT ![e] = newAlloc]
       /\ bad' = bad
            \cup (IF newCount > cfg.pw THEN Flag("C06", "more-packets-outstanding-than-the-window") ELSE {})
            \cup (IF newAlloc > Ceil(cfg.alloc[Other(e)]) THEN Flag("C06", "more-bytes-outstanding-than-peer-advertised") ELSE {})
    /\ UNCHANGED <<sub, unacked, cfg, nprobe>>

EmitOther ==
    /\ IsEvent("Emit") /\ Cur.kind # "D"
    /\ UNCHANGED <<sub, begun, open, unacked, tsFresh, tsMaybe, maybeSum, certainSum, outCount, outAlloc, cfg, nprobe, bad>>

Handle ==
    /\ IsEvent("Handle")
    /\ LET e == Cur.ep IN
       IF Cur.kind = "A"
       THEN LET f == Cur.f
                span == Cur.pre_tx_next - Cur.pre_tx_base
                delta == f.pbase - Cur.pre_tx_base
                pvalid == delta >= 0 /\ delta <= span /\ f.pbase < 1000000
                gone == IF pvalid THEN {p \in open[e] : p[1] < f.pbase} ELSE {}
                U == {p[2] : p \in gone}
            IN
            /\ open' = [open EXCEPT ![e] = @ \ gone]
            /\ unacked' = [unacked EXCEPT ![e] = @ - SumLen(U, sub)]
            /\ outCount' = [outCount EXCEPT ![e] = @ - Cardinality(U)]
            /\ outAlloc' = [outAlloc EXCEPT ![e] = @ - SumAlloc(U, sub)]
            /\ UNCHANGED bad
       ELSE /\ bad' = bad \cup (IF Cur.kind # "reject" /\ Cur.rx_alloc > Ceil(cfg.alloc[e]) THEN Flag("C06", "receive-allocation-over-limit") ELSE {})
                         \cup (IF Cur.kind # "reject" /\ cfg.honest /\ Cur.rx_alloc > outAlloc[Other(e)] THEN Flag("C06", "receiver-charges-more-than-the-sender-has-outstanding") ELSE {})
                         \* the bytes really held (reassembly buffers + complete undelivered packets), whatever the receiver's own counter says
                         \cup (IF "rx_held" \in DOMAIN Cur /\ Cur.rx_held > Ceil(cfg.alloc[e]) THEN Flag("C06", "received-packet-data-held-exceeds-max-receive-alloc") ELSE {})
            /\ UNCHANGED <<open, unacked, outCount, outAlloc>>
    /\ UNCHANGED <<sub, begun, tsFresh, tsMaybe, maybeSum, certainSum, cfg, nprobe>>

Probe ==
    /\ IsEvent("Probe")
    /\ LET e == Cur.ep
           hi == unacked[e] - certainSum[e]
           lo == hi - maybeSum[e]
       IN bad' = bad
            \cup (IF Cur.bufsize < 0 THEN Flag("C20", "send-buffer-size-underflow") ELSE {})
            \cup (IF Cur.bufsize >= 0 /\ Cur.bufsize < lo THEN Flag("C20", "send-buffer-size-too-small") ELSE {})
            \cup (IF Cur.bufsize > hi THEN Flag("C20", "send-buffer-size-too-large") ELSE {})
    /\ nprobe' = nprobe + 1
    /\ UNCHANGED <<sub, begun, open, unacked, tsFresh, tsMaybe, maybeSum, certainSum, outCount, outAlloc, cfg>>

Quiesced ==
    /\ IsEvent("Quiesced")
    /\ LET e == Cur.ep IN
       bad' = bad \cup (IF Cur.reached /\ open[e] = {} /\ Cur.bufsize # 0 THEN Flag("C20", "nonzero-after-everything-acknowledged") ELSE {})
                  \cup (IF Cur.reached /\ cfg.honest /\ "rx_alloc" \in DOMAIN Cur /\ open[Other(e)] = {} /\ Cur.rx_alloc # 0
                        THEN Flag("C06", "receive-allocation-not-returned-at-quiescence") ELSE {})
    /\ UNCHANGED <<sub, begun, open, unacked, tsFresh, tsMaybe, maybeSum, certainSum, outCount, outAlloc, cfg, nprobe>>

Skip ==
    /\ IsOneOf({"End", "FaultsEnd", "Net", "Deliver", "Ret", "Probes", "FlushEnd", "RecvEnd"})
    /\ UNCHANGED <<sub, begun, open, unacked, tsFresh, tsMaybe, maybeSum, certainSum, outCount, outAlloc, cfg, nprobe, bad>>

Next == Reset \/ Send \/ Step \/ EmitData \/ EmitOther \/ Handle \/ Probe \/ Quiesced \/ Skip

Spec == Init /\ [][Next]_vars

AtEnd == l = NRec + 1
Brief == IF AtEnd THEN [l |-> l, bad |-> bad, nprobe |-> nprobe] ELSE [l |-> l]
Holds(p) == AtEnd => NoneFor(bad, p)
C20 == Holds("C20")
C06 == Holds("C06")
====================================================================================
