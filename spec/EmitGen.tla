----------------------------------- MODULE EmitGen -----------------------------------
(* Cases for conformance replay of Emit.tla: every sequence of up to N packets from PacketLens
   (expanded into their fragments), every credit and window room; one JSON line per case with the
   frames the model expects.  `uvh emit-model` submits the packets (Unreliable, one channel) to a
   real HalfConnection, flushes once with that credit and frame window, and compares. *)
EXTENDS Emit, TLC, Json

CONSTANTS N, PacketLens, Credits, Rooms

FragSize == 1448
NFrag(len) == IF len = 0 THEN 1 ELSE (len + FragSize - 1) \div FragSize
Expand(len) == [i \in 1..NFrag(len) |-> [len |-> IF i < NFrag(len) THEN FragSize ELSE len - (NFrag(len) - 1) * FragSize,
                                         last |-> NFrag(len) - 1, wpl |-> 0, cpl |-> 0]]
RECURSIVE ExpandAll(_)
ExpandAll(ps) == IF ps = <<>> THEN <<>> ELSE Expand(Head(ps)) \o ExpandAll(Tail(ps))

RECURSIVE SeqsUpTo(_)
SeqsUpTo(n) == IF n = 0 THEN {<<>>} ELSE LET S == SeqsUpTo(n - 1) IN S \cup {Append(s, k) : s \in {x \in S : Len(x) = n - 1}, k \in PacketLens}

CreditsDef == {-1, 0, 50, 800, 1471, 1472, 1500, 3000, 100000}

VARIABLES ps, credit, room
Init == ps \in SeqsUpTo(N) /\ credit \in Credits /\ room \in Rooms
Next == UNCHANGED <<ps, credit, room>>
Spec == Init /\ [][Next]_<<ps, credit, room>>

Case == LET r == Flush(ExpandAll(ps), credit, room) IN
        PrintT(<<"CASE", ToJson([packets |-> ps, credit |-> credit, room |-> room, stop |-> r.stop,
                                 frames |-> [i \in 1..Len(r.frames) |-> [len |-> r.frames[i].len, dgs |-> r.frames[i].dgs]]])>>)
=====================================================================================
