SPECIFICATION TSpec
CONSTANTS
    Resend = 1
    Retries = 2
    ReAckAnyNonce = FALSE
    Linger = 2
    Clients = {"c0"}
    MaxActive = 1
    MaxTotal = 1
    TC = 2
    TS = 2
    Tmax = 7
    NetCap = 2
    Faults = 1
    Forgeries = 0
    DataFrames = 0
    Herr = TRUE
INVARIANT EventStreamsWellFormed
INVARIANT AgreeWhenBothActive
INVARIANT LimitsAgree
INVARIANT ServerConnectionsAreAcknowledged
INVARIANT ClientConnectionsEchoItsNonce
INVARIANT Limits
INVARIANT NoViolation
INVARIANT NoAmplification
INVARIANT NoTimingViolation
INVARIANT PhasesWithinBudget
CHECK_DEADLOCK FALSE
