---------------------------------- MODULE MC_AckEmit ----------------------------------
(* Every acknowledgement flush over the boundary classes of the number of groups owed (none, one, just
   below / at / above one and two full frames, many), of the credit and of the sync-reply flag:
     AckFrameBounds   no ack frame over 1472 bytes
     AckWithinCredit  nothing leaves on negative credit; what leaves exceeds the credit by less than one frame (C13:
                      "no matter how many acknowledgements are owed")
     AckAccounted     the frames carry at most the groups owed, all of them if the flush was not cut short
   and one JSON line per case for replay into the real code (uvh ack-emit-model). *)
EXTENDS Emit, TLC, Json

NsDef == {0, 1, 2, 160, 161, 162, 163, 164, 322, 323, 324, 325, 500}
CreditsDef == {-1, 0, 14, 15, 23, 24, 1000, 1455, 1463, 1464, 1465, 1472, 1473, 2900, 2944, 100000}

VARIABLES n, credit, dud
Init == n \in NsDef /\ credit \in CreditsDef /\ dud \in BOOLEAN
Next == UNCHANGED <<n, credit, dud>>
Spec == Init /\ [][Next]_<<n, credit, dud>>

R == AckFlush(n, credit, dud)
RECURSIVE Sum(_)
Sum(q) == IF q = <<>> THEN 0 ELSE Head(q) + Sum(Tail(q))
RECURSIVE Bytes(_)
Bytes(q) == IF q = <<>> THEN 0 ELSE AckLen(Head(q)) + Bytes(Tail(q))

AckFrameBounds == \A i \in 1..Len(R.frames) : AckLen(R.frames[i]) <= MaxFrame
AckWithinCredit == /\ (credit < 0 => R.frames = <<>>)
                   /\ (R.frames # <<>> => Bytes(R.frames) - AckLen(R.frames[Len(R.frames)]) <= credit)
AckAccounted == Sum(R.frames) <= n /\ (~R.stop => Sum(R.frames) = n)
Case == PrintT(<<"CASE", ToJson([n |-> n, credit |-> credit, dud |-> dud, stop |-> R.stop, frames |-> R.frames])>>)
=====================================================================================
