SPECIFICATION Spec
INVARIANT C20
POSTCONDITION Accepted
CHECK_DEADLOCK FALSE
ALIAS Brief
