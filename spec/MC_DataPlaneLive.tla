----------------------------- MODULE MC_DataPlaneLive -----------------------------
(* Liveness half of C02 / C11 on the data-plane model: once the network has stopped misbehaving
   (the fault budget is used up) and every protocol action that stays enabled is eventually taken
   (FairSpec: both applications keep calling step / flush / receive, the network delivers what is
   in flight, timers fire), every Reliable packet is delivered and the send buffer drains - unless
   the exploration bound on emitted frames / sync frames is reached first.  Frames are the only
   thing the bound limits and their count only grows, so a fair behaviour that satisfies neither
   disjunct is a genuine stall or livelock of the protocol model. *)
EXTENDS DataPlane

StateConstraint == nframes <= MaxFrames /\ nsyncs <= MaxSyncs
Drained == sTotal = 0 /\ sq = <<>> /\ pendq = <<>>
BudgetReached == nframes >= MaxFrames \/ nsyncs >= MaxSyncs
NoPermanentStall == [](faults = 0 => <>((AllReliableDelivered /\ Drained) \/ BudgetReached))
====================================================================================
