SPECIFICATION Spec
CONSTANTS
    N = 5
    Kinds <- KindsDef
    Credits <- CreditsDef
    Rooms = {0, 1, 2, 8}
INVARIANT FrameBounds
INVARIANT InOrder
INVARIANT WithinCredit
INVARIANT WithinWindow
INVARIANT Maximal
CHECK_DEADLOCK FALSE
