SPECIFICATION Spec
CONSTANTS
    PW = 2
    FW = 2
    PMod = 8
    FMod = 16
    PBase0 = 7
    FBase0 = 15
    Chans = {0}
    Modes = {"U", "R"}
    FragCounts = {1}
    TxAlloc = 3
    RxAlloc = 3
    MaxSend = 2
    MaxFrames = 3
    MaxSyncs = 1
    MaxEpoch = 0
    NetCap = 2
    Faults = 1
    GW = 32
    Keepalive = FALSE
    FreeNonce = FALSE
CONSTRAINT StateConstraint
INVARIANT TypeOK
INVARIANT WindowsConsistent
INVARIANT InOrderAtMostOnce
INVARIANT ReliableNeverSkipped
INVARIANT RxAllocBound
INVARIANT TxRespectsPeer
INVARIANT NoPlaceholderBetweenHonest
INVARIANT RxWithinTx
INVARIANT BufferSizeExact
CHECK_DEADLOCK FALSE
