SPECIFICATION Spec
CONSTANTS
    Resend = 2000
    Retries = 10
    ReAckAnyNonce = FALSE
    Linger = 20000
INVARIANT CONF
INVARIANT Report
POSTCONDITION Accepted
CHECK_DEADLOCK FALSE
ALIAS Brief
