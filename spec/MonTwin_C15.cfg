SPECIFICATION Spec
INVARIANT C15
INVARIANT Report
POSTCONDITION Accepted
CHECK_DEADLOCK FALSE
ALIAS Brief
