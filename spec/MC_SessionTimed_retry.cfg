SPECIFICATION TSpec
CONSTANTS
    Resend = 2
    Retries = 2
    ReAckAnyNonce = FALSE
    Linger = 3
    Clients = {"c0"}
    MaxActive = 1
    MaxTotal = 1
    TC = 5
    TS = 5
    Tmax = 14
    NetCap = 2
    Faults = 1
    Forgeries = 0
    DataFrames = 0
    Herr = TRUE
INVARIANT EventStreamsWellFormed
INVARIANT AgreeWhenBothActive
INVARIANT LimitsAgree
INVARIANT ServerConnectionsAreAcknowledged
INVARIANT ClientConnectionsEchoItsNonce
INVARIANT Limits
INVARIANT NoViolation
INVARIANT NoAmplification
INVARIANT NoTimingViolation
INVARIANT PhasesWithinBudget
CHECK_DEADLOCK FALSE
