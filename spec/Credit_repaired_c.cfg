SPECIFICATION Spec
CONSTANTS
    Cap = 0
    FrameMax = 2
    RateN = 2
    RateD = 5
    MaxT = 12
    Variant = "repaired"
INVARIANTS TypeOK RateBound
CHECK_DEADLOCK FALSE
