SPECIFICATION Spec
INVARIANT C10
POSTCONDITION Accepted
CHECK_DEADLOCK FALSE
ALIAS Brief
