SPECIFICATION Spec
INVARIANT C12
INVARIANT ObsReport
POSTCONDITION Accepted
CHECK_DEADLOCK FALSE
ALIAS Brief
