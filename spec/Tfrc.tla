----------------------------------- MODULE Tfrc -----------------------------------
(* Implementation-shaped model of the TFRC rate controller (send_rate.rs and recv_rate_set.rs):
   AwaitSend, SlowStart, ThroughputEqn, the receive-rate set, the no-feedback timer with its idle
   flag, floor and ceiling.  Integer state only.  Every floating-point evaluation is an input of
   the step, an oracle: the new RTT estimate in ms, the RTO in ms, 4380 divided by R, 736 divided
   by R, 0.85 times X_recv, and the throughput equation at the reported loss rate.  TfrcTrace feeds
   the oracles from what the harness computed independently and logged, and requires the model to
   reproduce the next state of the code exactly.  MC_Tfrc draws them from small sets and checks
   the rate invariants over every sequence of calls. *)
EXTENDS Integers, Sequences, FiniteSets

CONSTANTS MSS, Floor, Cap      \* 1472, 23, and the saturation value standing for u32::MAX

Min(a, b) == IF a < b THEN a ELSE b
Max(a, b) == IF a > b THEN a ELSE b
Sat2(x) == IF x > Cap \div 2 THEN Cap ELSE 2 * x   \* saturating_mul(2); never forms a product above Cap (TLC integers are 32 bit)

\* state: [mode, x, ceil, xrecv, nofb, idle, tcp, doubled, rtt]
\*   mode 0 AwaitSend, 1 SlowStart, 2 ThroughputEqn;  xrecv: sequence of [v, ts, init];  nofb, doubled, rtt: -1 = none
New(ceil) == [mode |-> 0, x |-> MSS, ceil |-> ceil, xrecv |-> <<>>, nofb |-> -1, idle |-> FALSE, tcp |-> -1, doubled |-> -1, rtt |-> -1]

NotifySent(s, now) ==
    IF s.mode = 0
    THEN [s EXCEPT !.mode = 1, !.nofb = now + 2000, !.doubled = -1, !.xrecv = <<[v |-> Cap, ts |-> now, init |-> TRUE]>>, !.idle = FALSE]
    ELSE [s EXCEPT !.idle = FALSE]

RECURSIVE MaxV(_)
MaxV(q) == IF Len(q) = 1 THEN q[1].v ELSE Max(q[1].v, MaxV(Tail(q)))

\* RecvRateSet
ReplaceMax(q, now, recv) ==
    LET kept == SelectSeq(q, LAMBDA e : ~e.init)
        m == IF kept = <<>> THEN recv ELSE Max(MaxV(kept), recv)
    IN <<m, <<[v |-> m, ts |-> now, init |-> FALSE]>>>>
RateLimitedUpdate(q, now, recv, rttms) ==
    LET q2 == SelectSeq(Append(q, [v |-> recv, ts |-> now, init |-> FALSE]), LAMBDA e : now - e.ts < Max(2 * rttms, 1))
    IN <<MaxV(q2), q2>>
LossIncreaseUpdate(q, now, recv85) == ReplaceMax([i \in 1..Len(q) |-> [q[i] EXCEPT !.v = q[i].v \div 2]], now, recv85)
DataLimitedUpdate(q, now, recv) == ReplaceMax(q, now, recv)

(* o: oracle record [rtt_ms, rto_ms, init, lossinit, xbps, recv85] *)
Feedback(s, now, recv, lossInc, rl, o) ==
    LET lim == IF rl THEN LET r == RateLimitedUpdate(s.xrecv, now, recv, o.rtt_ms) IN <<Sat2(r[1]), r[2]>>
               ELSE IF lossInc THEN LossIncreaseUpdate(s.xrecv, now, o.recv85)
               ELSE LET r == DataLimitedUpdate(s.xrecv, now, recv) IN <<Sat2(r[1]), r[2]>>
        limit == lim[1]
        base == [s EXCEPT !.xrecv = lim[2], !.rtt = o.rtt_ms, !.nofb = now + o.rto_ms, !.idle = TRUE]
    IN
    IF s.mode = 1 THEN
        IF lossInc THEN
            LET target == IF s.doubled = -1 THEN o.lossinit ELSE s.x \div 2 IN
            [base EXCEPT !.mode = 2, !.tcp = target, !.x = Min(Max(Min(target, limit), Floor), s.ceil)]
        ELSE IF s.doubled # -1 THEN
            (IF now - s.doubled >= o.rtt_ms
             THEN [base EXCEPT !.doubled = now, !.x = Min(Max(Min(Sat2(s.x), limit), o.init), s.ceil)]
             ELSE [base EXCEPT !.x = Min(s.x, s.ceil)])
        ELSE [base EXCEPT !.doubled = now, !.x = Min(o.init, s.ceil)]
    ELSE \* mode 2
        [base EXCEPT !.tcp = o.xbps, !.x = Min(Max(Min(o.xbps, limit), Floor), s.ceil)]

(* o: [rto_ms, init] (init = 4380/R for the current estimate, or -1 if there is none) *)
Expired(s, now, o) ==
    LET s2 == IF s.mode = 1 THEN
                  (IF s.rtt # -1 /\ s.idle /\ s.x < Sat2(o.init) THEN s
                   ELSE [s EXCEPT !.x = Max(s.x \div 2, Floor)])
              ELSE LET rr == MaxV(s.xrecv) IN
                   IF s.idle /\ rr < o.init THEN s
                   ELSE LET cur == Min(s.tcp, Sat2(rr))
                            nl == Max(cur \div 2, Floor)
                        IN [s EXCEPT !.xrecv = <<[v |-> nl \div 2, ts |-> now, init |-> FALSE]>>,
                                     !.x = Min(Max(Min(s.tcp, nl), Floor), s.ceil)]
    IN [s2 EXCEPT !.nofb = now + o.rto_ms, !.idle = TRUE]

Step(s, now, hasFb, recv, lossInc, rl, o) ==
    IF s.mode = 0 THEN s
    ELSE IF hasFb THEN Feedback(s, now, recv, lossInc, rl, o)
    ELSE IF s.nofb # -1 /\ now >= s.nofb THEN Expired(s, now, o)
    ELSE s
====================================================================================
