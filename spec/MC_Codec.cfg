INIT Init
NEXT Next
INVARIANTS SizeOk RoundTrip MalformedRejected FieldMutantsDecided
POSTCONDITION Written
CHECK_DEADLOCK FALSE
