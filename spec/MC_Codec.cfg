INIT Init
NEXT Next
INVARIANT SizeOk
POSTCONDITION Written
CHECK_DEADLOCK FALSE
