SPECIFICATION Spec
INVARIANT C19
INVARIANT Report
POSTCONDITION Accepted
CHECK_DEADLOCK FALSE
ALIAS Brief
